#!/usr/bin/env python3
"""Collects the results of lib/try_seed.sh runs (/tmp/batch*.out lines `SEED ...`) into
seeded/RESULTS.json and prints a markdown table for DESIGN.md."""
import glob, json, os, re, sys
HERE = os.path.dirname(os.path.dirname(os.path.realpath(__file__)))
rows = {}
for f in sorted(glob.glob("/tmp/batch*.out")):
    for line in open(f):
        m = re.match(r"SEED (\S+) prop=(\S+) rc=(\d+) violations=(\d+) harnesses=(\S*) wall=(\d+)s", line)
        if m:
            rows.setdefault(m.group(1), []).append({"property": m.group(2), "exit": int(m.group(3)), "violations": int(m.group(4)),
                                                     "harnesses": [h for h in m.group(5).split(",") if h], "wall_s": int(m.group(6)), "from": os.path.basename(f)})
out = {}
for seed in sorted(os.listdir(os.path.join(HERE, "seeded"))):
    d = os.path.join(HERE, "seeded", seed)
    if not os.path.isdir(d):
        continue
    meta = json.load(open(os.path.join(d, "meta.json")))
    out[seed] = {"property": meta.get("property"), "summary": meta.get("summary"), "needs": meta.get("needs"), "runs": rows.get(seed, [])}
json.dump(out, open(os.path.join(HERE, "seeded", "RESULTS.json"), "w"), indent=1)
print("| seeded change | breaks | what it needs | check run -> verdict (harnesses that fail) |")
print("|---|---|---|---|")
for seed, v in out.items():
    runs = "; ".join("%s: %s%s" % (r["property"], {0: "MISSED", 1: "caught", 2: "inconclusive"}.get(r["exit"], r["exit"]),
                                    (" (" + ", ".join(r["harnesses"]) + ")") if r["harnesses"] else "") for r in v["runs"]) or "not run"
    print("| `%s` | %s | %s | %s |" % (seed, v["property"], (v["needs"] or "").replace("|", "/")[:160], runs))
