#!/bin/bash
# run every property's check of the given tier, one after the other; summary at the end
tier=${1:-quick}
cd "$(dirname "$0")/.."
mkdir -p /tmp/verif-runall
for p in C01 C02 C03 C04 C05 C06 C07 C08 C09 C10 C11 C12 C13 C14 C15 C16 C17 C18 C19 C20; do
  s=$(date +%s)
  ./check $p --tier $tier > /tmp/verif-runall/$p.$tier.log 2>&1
  rc=$?
  e=$(date +%s)
  echo "$p rc=$rc wall=$((e-s))s $(tail -1 /tmp/verif-runall/$p.$tier.log | cut -c1-160)"
done
