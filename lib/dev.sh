#!/bin/bash
# dev helper: (re)create a persistent overlay under /tmp/dev and run the named harnesses directly.
# usage: lib/dev.sh c|p [timeout_s] harness_substr...
kind=$1; shift
to=300
if [[ $1 =~ ^[0-9]+$ ]]; then to=$1; shift; fi
rm -rf ${DEV:-/tmp/dev}/ov-$kind
VERIF_REPO=${VERIF_REPO:-/tmp/repo-pristine} python3 -c "
import sys; sys.path.insert(0,'/verif/lib')
import overlay; overlay.make('$kind','${DEV:-/tmp/dev}/ov-$kind')" || exit 1
[ -d ${DEV:-/tmp/dev}/target-$kind ] || cp -a /verif/.cache/warm-target ${DEV:-/tmp/dev}/target-$kind
args=()
for h in "$@"; do args+=(--harness "$h"); done
cd ${DEV:-/tmp/dev}/ov-$kind && CARGO_NET_OFFLINE=true cargo kani --no-default-features $( [ $kind = p ] && echo "--features kani_projection" ) -Z stubbing -Z unstable-options --target-dir ${DEV:-/tmp/dev}/target-$kind --harness-timeout ${to}s -j 8 --output-format terse "${args[@]}" 2>&1 | grep -v "^warning\|^ *|\|^ *=\|^$\|-->\|^[0-9 ]*|" 
