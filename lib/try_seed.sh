#!/bin/bash
# apply a seeded change to /repo, run the quick check of the given properties, undo it.
# usage: lib/try_seed.sh <seed-name> <prop> [prop...]
cd "$(dirname "$0")/.."
seed=$1; shift
patch=/verif/seeded/$seed/patch.diff
[ -f "$patch" ] || { echo "no such seed"; exit 2; }
if ! git -C /repo diff --quiet; then echo "/repo has local changes"; exit 2; fi
git -C /repo apply "$patch" || { echo "patch does not apply"; exit 2; }
mkdir -p /tmp/verif-seeds
for p in "$@"; do
  s=$(date +%s)
  ./check $p --tier ${TIER:-quick} > /tmp/verif-seeds/$seed.$p.log 2>&1
  rc=$?
  e=$(date +%s)
  v=$(grep -c "^VIOLATION" /tmp/verif-seeds/$seed.$p.log)
  h=$(grep "^  harness=" /tmp/verif-seeds/$seed.$p.log | sed 's/  harness=\([a-z0-9_]*\).*/\1/' | tr '\n' ',' )
  echo "SEED $seed prop=$p rc=$rc violations=$v harnesses=$h wall=$((e-s))s"
done
git -C /repo checkout -- .
rm -rf /verif/replays/* 2>/dev/null
