#!/usr/bin/env python3
"""Regenerates /verif/MANIFEST.json from the harness registry and the table below."""
import json, os, sys
sys.path.insert(0, os.path.dirname(os.path.realpath(__file__)))
import runner

HERE = runner.HERE

TEXT = {
    "C01": ("L1: every client-packet encoder equals an independent byte-level reference encoder, whose output is proved well-formed by an "
            "independent MQTT 5 checker; L2: next_step priority, progress bookkeeping, arm_replay on the real Outbound; L3c: one "
            "perform_outbound_step as a real coroutine under symbolic partial writes, faults and cancellation; L3p: operations drain before "
            "encoding, direct writers never start inside another packet, CONNECT first on a new transport", "3a C01"),
    "C02": ("L2 lemmas on the real Outbound/handle_packet (only PUBACK removes, acceptance order kept, Sent not re-offered, replay re-arms, "
            "DUP only) + L3p publish(QoS 1/2): retained with its quota slot atomically, before any write, under contract A2", "3a C02"),
    "C03": ("L2 lemmas on real handle_packet/Outbound: PUBREC moves atomically, failing PUBREC ends, PUBCOMP removes and returns the slot, "
            "stale acks inert, release order preserved; L3c step on PUBREL", "3a C03"),
    "C04": ("L1 decode fidelity of inbound PUBLISH (symbolic bytes vs reference checker, lazy property iteration) + L2 handle_packet lemmas "
            "(one ack at the queue tail also with a full arena, duplicate suppression, PUBCOMP reason, window full)", "3a C04"),
    "C05": ("L2 reset lemma + L3p handshake in two slices (HEAD: real CONNECT encoder up to a projection cut point; TAIL: first inbound packet, "
            "reason code, session-present handling, resume flag after failures)", "3a C05"),
    "C06": ("inductive counting invariant quota + unresolved <= Receive Maximum over real handle_packet (every ack kind, stale acks, any reason "
            "code), publish bookkeeping (L3p) and CONNACK arithmetic incl. replayed publishes (handshake TAIL slice)", "3a C06"),
    "C07": ("inductive step from an arbitrary 16-bit counter and arbitrary in-flight ids on the real next_packet_id", "3a C07"),
    "C08": ("L1: real decoder on fully symbolic bytes per (first byte, length): accept <=> structurally valid, exact field values, Kani's "
            "implicit panic/overflow/bounds checks; varint exhaustive; framer on symbolic streams; rejection latches the handle", "3a C08"),
    "C09": ("L1: every encoder byte-for-byte against an independent reference encoder with symbolic fields; property encoding and size() "
            "for all 27 kinds; fixed-header back-fill; too-long fields and too-small buffers refused", "3a C09"),
    "C10": ("symbolic clock: interval arithmetic exhaustive over u16 seconds; timers re-armed by every completed packet (L3c); service() "
            "ping/timeout decision for every clock value, wait bounded by the earlier deadline, Server Keep Alive (L3p)", "3a C10"),
    "C11": ("every latch set-site (step, read, packet handler, keep-alive timeout, direct writers) and every public operation from "
            "live=false, with symbolic transport outcomes (L3c leaves, L3p operations)", "3a C11"),
    "C12": ("L3p Session::connect HEAD slice from arbitrary leftovers of an earlier connection (reader, timers, resume flag) + TAIL slice for "
            "failed handshakes + L2 CONNECT-behind-retained-data lemma", "3a C12"),
    "C13": ("resumption lemma: recorded progress == accepted bytes at every yield and after every partial write (L3c, cancel at each await); "
            "reads: delivered == committed at every read entry (L3p); enqueue atomicity at every A2 entry (L3p)", "3a C13"),
    "C14": ("exact gate arithmetic (L1) + gate before retain/write at every site (L3p) + ack sizes (L2) + replay-time gate (L3c) + CONNECT "
            "advertises rx size + oversize inbound refused before its body is requested", "3a C14"),
    "C15": ("relational harness: one symbolic stream under two independent symbolic chunkings through the real PacketReader; exactly the "
            "missing bytes requested; partial writes concatenate to the packet (L3c step, write_all)", "3a C15"),
    "C16": ("variant-function lemmas only (reduced claim): each step decreases the measure; drain / drive_packet / wait_for_progress loops "
            "exit within measure-bounded iterations and report progress only after real wire progress", "3a C16"),
    "C17": ("L2 on the real Outbound arena: compaction preserves bytes for every ack position, scratch disjoint from the retained prefix, "
            "DUP touches bit 3 only, capacity recovered", "3a C17"),
    "C18": ("L2 on real Session::status (all kinds, ids, generations) + handle_packet failure surfacing + handle contents issued by the "
            "operations (L3p)", "3a C18"),
    "C19": ("fully symbolic property kind x value x context table against the MQTT 5 tables; L3p: refused requests leave an empty ghost log; "
            "QoS downgrade incl. to QoS 0", "3a C19"),
    "C20": ("L1: lookups in symbolic encoded property blocks; reply()/reply_owned() address exactly the requester; owned capacities at and "
            "below the actual sizes", "3a C20"),
}

NOTE = ("Bounded: holds for all values of the symbolic variables listed per harness in the evidence, within the stated sizes and unwindings "
        "(unwinding assertions on). Trusted: rustc + Kani MIR->GOTO translation (dev profile, defmt off), CBMC, CaDiCaL; stubs and contracts "
        "listed in evidence.assumptions; composition of lemmas into the property sentence is a paper argument (DESIGN.md section 3).")


def main():
    hs = runner.discover()
    claimed = sorted(set(p for h in hs for p in h.props))
    not_built = json.load(open(os.path.join(HERE, "lib", "not_applicable.json")))
    checks = []
    for p in sorted(TEXT):
        if p not in claimed or p in not_built:
            continue
        nq = len(runner.select(hs, p, "quick"))
        nt = len(runner.select(hs, p, "thorough"))
        if nq < 2:
            continue
        layers = sorted(set(h.layer for h in runner.select(hs, p, "thorough")))
        checks.append({
            "property_id": p,
            "quick_cmd": "./check %s --tier quick" % p,
            "thorough_cmd": "./check %s --tier thorough" % p,
            "evidence_file": "/verif/evidence/%s.json" % p,
            "replay_cmd_template": "./check %s --replay {path}" % p,
            "engine": "kani-cbmc",
            "level_claimed": {
                "category": "model_checking",
                "text": "Bounded symbolic execution of the real code (Kani 0.68 -> CBMC 6.11 -> CaDiCaL): %s. %d quick / %d thorough harnesses, layers %s." % (TEXT[p][0], nq, nt, ",".join(layers)),
                "design_ref": "DESIGN.md section " + TEXT[p][1] + " (as built), section 3 (reasoning), HARNESSES.md (inventory)",
            },
            "level_note": NOTE,
            "technique": "bounded model checking of the compiled Rust (Kani/CBMC, SAT) over symbolic inputs, schedules, faults and clock",
        })
    na = [{"property_id": p, "reason": r} for p, r in sorted(not_built.items())]
    for p in sorted(TEXT):
        if p not in [c["property_id"] for c in checks] and p not in not_built:
            na.append({"property_id": p, "reason": "harnesses not built yet in this revision (planned, see DESIGN.md section 3)"})
    m = {
        "version": 1,
        "setup_cmd": "./check setup",
        "hooks": {
            "guard": "cfg(kani) (set only by cargo-kani, only in the scratch overlay copy; no hook is committed to /repo)",
            "enable": "./check copies /repo's working tree to a scratch directory and appends `#[cfg(kani)] #[path=\"/verif/harness/<file>.rs\"] mod verif_<file>;` to the sources it instruments",
            "baseline_off_cmd": "cd /repo && cargo test --workspace --no-fail-fast --offline",
            "source_commits": [],
            "add_only": True,
        },
        "engines": [{"name": "kani-cbmc", "path": "/verif/check", "serves_properties": [c["property_id"] for c in checks],
                     "kind_free_text": "Kani 0.68.0 (MIR -> GOTO) + CBMC 6.11.0 bounded model checker + CaDiCaL SAT solver; harnesses in /verif/harness, runner /verif/lib/runner.py"}],
        "checks": checks,
        "not_applicable": na,
        "notes": "Exit 2 = inconclusive (build failure of the overlay, timeout, out of memory, vacuous harness, unwinding bound too small). "
                 "Known findings: /verif/known_findings.json.",
    }
    json.dump(m, open(os.path.join(HERE, "MANIFEST.json"), "w"), indent=1)
    print("claimed:", [c["property_id"] for c in checks])
    print("not_applicable:", [n["property_id"] for n in na])


if __name__ == "__main__":
    main()
