#!/usr/bin/env python3
"""Regenerates /verif/MANIFEST.json from the harness registry and the table below."""
import json, os, sys
sys.path.insert(0, os.path.dirname(os.path.realpath(__file__)))
import runner

HERE = runner.HERE

TEXT = {
    "C01": ("L1 encoders vs. an independent MQTT 5 well-formedness checker; L2 next_step/set_written/arm_replay lemmas on the real "
            "Outbound; L3c one-step coroutine harnesses with symbolic partial writes, faults and cancellation; L3p operation harnesses "
            "(drain-before-encode) under contracts", "3 C01"),
    "C02": ("L2 lemmas on the real Outbound/handle_packet (only PUBACK removes, order preserved, Sent not re-offered, replay re-arms, DUP only) "
            "+ L3p publish(QoS1) enqueue-before-write under contract A2", "3 C02"),
    "C03": ("L2 lemmas on real handle_packet/Outbound: PUBREC moves atomically, failing PUBREC ends, PUBCOMP removes, release order preserved", "3 C03"),
    "C04": ("L1 decode fidelity of inbound PUBLISH + L2 handle_packet lemmas (one ack at the queue tail, duplicate suppression, PUBCOMP reason)", "3 C04"),
    "C05": ("L2 reset lemma + L3p connect_handshake harnesses (clean_start, CONNACK sp=0/1 handling)", "3 C05"),
    "C06": ("inductive counting invariant quota + unresolved <= Receive Maximum over real handle_packet / publish bookkeeping / CONNACK arithmetic", "3 C06"),
    "C07": ("inductive step from an arbitrary 16-bit counter and arbitrary in-flight ids on the real next_packet_id", "3 C07"),
    "C08": ("L1: real decoder and PacketReader on fully symbolic bytes (Kani's implicit panic/overflow/bounds checks), accept/reject classes "
            "against the reference checker; L3p: rejection latches the handle", "3 C08"),
    "C09": ("L1: every encoder against an independent field-level reference decoder with symbolic fields; size()/length-prefix leaf lemmas", "3 C09"),
    "C10": ("symbolic clock: interval arithmetic exhaustive over u16 seconds; L3p service/wait lemmas with Instant::now stubbed by an arbitrary "
            "non-decreasing clock", "3 C10"),
    "C11": ("every latch set-site and every public operation from live=false, transport outcomes symbolic (L3c leaves, L3p operations)", "3 C11"),
    "C12": ("L3p Session::connect from an arbitrary prior state + L2 CONNECT-behind-retained-data lemma", "3 C12"),
    "C13": ("resumption lemma: progress recorded before every yield (L3c, symbolic drop points) + enqueue atomicity (L3p)", "3 C13"),
    "C14": ("exact gate arithmetic (L1) + gate-before-retain/write order at every site (L3p) + ack sizes (L2)", "3 C14"),
    "C15": ("relational harness: one symbolic stream under two independent symbolic chunkings through the real PacketReader; partial writes via C01/C13 step lemmas", "3 C15"),
    "C16": ("variant-function lemmas only (reduced claim): each step decreases the measure; loops exit within measure+1 steps", "3 C16"),
    "C17": ("L2 on the real Outbound arena: compaction preserves bytes, scratch disjoint from retained prefix, DUP touches bit 3 only, capacity recovered", "3 C17"),
    "C18": ("L2 on real Session::status + handle_packet failure surfacing", "3 C18"),
    "C19": ("fully symbolic property kind x value x context table against the MQTT 5 tables; L3p refusal leaves an empty ghost log", "3 C19"),
    "C20": ("L1: reply helpers on symbolic encoded property blocks; reply round-trip through the real encoder and the reference decoder", "3 C20"),
}

NOTE = ("Bounded: holds for all values of the symbolic variables listed per harness in the evidence, within the stated sizes and unwindings "
        "(unwinding assertions on). Trusted: rustc + Kani MIR->GOTO translation (dev profile, defmt off), CBMC, CaDiCaL; stubs and contracts "
        "listed in evidence.assumptions; composition of lemmas into the property sentence is a paper argument (DESIGN.md section 3).")


def main():
    hs = runner.discover()
    claimed = sorted(set(p for h in hs for p in h.props))
    not_built = json.load(open(os.path.join(HERE, "lib", "not_applicable.json")))
    checks = []
    for p in sorted(TEXT):
        if p not in claimed or p in not_built:
            continue
        nq = len(runner.select(hs, p, "quick"))
        nt = len(runner.select(hs, p, "thorough"))
        if nq < 2:
            continue
        layers = sorted(set(h.layer for h in runner.select(hs, p, "thorough")))
        checks.append({
            "property_id": p,
            "quick_cmd": "./check %s --tier quick" % p,
            "thorough_cmd": "./check %s --tier thorough" % p,
            "evidence_file": "/verif/evidence/%s.json" % p,
            "replay_cmd_template": "./check %s --replay {path}" % p,
            "engine": "kani-cbmc",
            "level_claimed": {
                "category": "model_checking",
                "text": "Bounded symbolic execution of the real code (Kani 0.68 -> CBMC 6.11 -> CaDiCaL): %s. %d quick / %d thorough harnesses, layers %s." % (TEXT[p][0], nq, nt, ",".join(layers)),
                "design_ref": "DESIGN.md section " + TEXT[p][1],
            },
            "level_note": NOTE,
            "technique": "bounded model checking of the compiled Rust (Kani/CBMC, SAT) over symbolic inputs, schedules, faults and clock",
        })
    na = [{"property_id": p, "reason": r} for p, r in sorted(not_built.items())]
    for p in sorted(TEXT):
        if p not in [c["property_id"] for c in checks] and p not in not_built:
            na.append({"property_id": p, "reason": "harnesses not built yet in this revision (planned, see DESIGN.md section 3)"})
    m = {
        "version": 1,
        "setup_cmd": "./check setup",
        "hooks": {
            "guard": "cfg(kani) (set only by cargo-kani, only in the scratch overlay copy; no hook is committed to /repo)",
            "enable": "./check copies /repo's working tree to a scratch directory and appends `#[cfg(kani)] #[path=\"/verif/harness/<file>.rs\"] mod verif_<file>;` to the sources it instruments",
            "baseline_off_cmd": "cd /repo && cargo test --workspace --no-fail-fast --offline",
            "source_commits": [],
            "add_only": True,
        },
        "engines": [{"name": "kani-cbmc", "path": "/verif/check", "serves_properties": [c["property_id"] for c in checks],
                     "kind_free_text": "Kani 0.68.0 (MIR -> GOTO) + CBMC 6.11.0 bounded model checker + CaDiCaL SAT solver; harnesses in /verif/harness, runner /verif/lib/runner.py"}],
        "checks": checks,
        "not_applicable": na,
        "notes": "Exit 2 = inconclusive (build failure of the overlay, timeout, out of memory, vacuous harness, unwinding bound too small). "
                 "Known findings: /verif/known_findings.json.",
    }
    json.dump(m, open(os.path.join(HERE, "MANIFEST.json"), "w"), indent=1)
    print("claimed:", [c["property_id"] for c in checks])
    print("not_applicable:", [n["property_id"] for n in na])


if __name__ == "__main__":
    main()
