"""Overlay build: a scratch copy of /repo's working tree with the harness modules appended.

Nothing is written to /repo.  Two kinds of overlay:

  c  the crate as it is (real coroutines); harness files without the `p_` prefix
  p  the schedule-free projection (DESIGN.md 2.2): `async fn` -> `fn`, `.await` removed in
     session/{drive,operations,handshake}.rs and outbound.rs, `Io` replaced by a synchronous
     trait with the same method names, `with_deadline` replaced by the model in verif_common;
     harness files with the `p_` prefix
"""
import os, re, shutil, subprocess

HERE = os.path.dirname(os.path.dirname(os.path.realpath(__file__)))
REPO = os.environ.get("VERIF_REPO", "/repo")
HARNESS_DIR = os.path.join(HERE, "harness")

# harness file key -> (source file the module is appended to, module path of that file)
ATTACH = {
    "common": ("src/lib.rs", ""),
    "varint": ("src/varint.rs", "varint"),
    "properties": ("src/properties.rs", "properties"),
    "ser": ("src/ser/mod.rs", "ser"),
    "packets": ("src/packets.rs", "packets"),
    "wire": ("src/wire.rs", "wire"),
    "will": ("src/will.rs", "will"),
    "publication": ("src/publication.rs", "publication"),
    "de": ("src/de/mod.rs", "de"),
    "deserializer": ("src/de/deserializer.rs", "de::deserializer"),
    "received_packet": ("src/de/received_packet.rs", "de::received_packet"),
    "packet_reader": ("src/de/packet_reader.rs", "de::packet_reader"),
    "client": ("src/mqtt_client/mod.rs", "mqtt_client"),
    "outbound": ("src/mqtt_client/outbound.rs", "mqtt_client::outbound"),
    "session": ("src/mqtt_client/session/mod.rs", "mqtt_client::session"),
    "state": ("src/mqtt_client/session/state.rs", "mqtt_client::session::state"),
    "inbound": ("src/mqtt_client/session/inbound.rs", "mqtt_client::session::inbound"),
    "drive": ("src/mqtt_client/session/drive.rs", "mqtt_client::session::drive"),
    "operations": ("src/mqtt_client/session/operations.rs", "mqtt_client::session::operations"),
    "handshake": ("src/mqtt_client/session/handshake.rs", "mqtt_client::session::handshake"),
}

PROJECTED_FILES = [
    "src/mqtt_client/session/drive.rs",
    "src/mqtt_client/session/operations.rs",
    "src/mqtt_client/session/handshake.rs",
    "src/mqtt_client/outbound.rs",
]

PROJECTION_RULES = [
    r"s/\basync fn\b/fn/g  (drive.rs, operations.rs, handshake.rs, outbound.rs)",
    r"s/\.await//g         (same files)",
    "mqtt_client/mod.rs: `pub trait Io: Read + Write + ErrorType {}` + blanket impl -> synchronous "
    "`trait Io { type Error: embedded_io_async::Error; fn read; fn write; fn flush }`",
    "drive.rs: `embassy_time::with_deadline` -> `crate::verif_common::with_deadline` "
    "(would-block ghost => clock := deadline, Err(TimeoutError); else Ok(value))",
    "handshake.rs: `ack.properties.iter()` -> `crate::verif_common::stub_props_iter(&ack.properties)` (iterates the ghost "
    "slice CK_PROPS; the lazily decoding iterator is an `impl Iterator` and cannot be stubbed; it is checked by c20_lookup_* / c04_prop_*)",
    "handshake.rs: `if crate::verif_common::cut_after_connect() { return Err(Error::Disconnected); }` inserted after the CONNECT "
    "write block (concrete ghost flag: lets a harness end the function there, because CBMC otherwise executes the whole tail on "
    "infeasible paths)",
]

SYNC_IO = '''pub trait Io {
    type Error: embedded_io_async::Error;
    fn read(&mut self, buf: &mut [u8]) -> Result<usize, Self::Error>;
    fn write(&mut self, buf: &[u8]) -> Result<usize, Self::Error>;
    fn flush(&mut self) -> Result<(), Self::Error>;
}
'''


def module_of(key):
    """`p_operations` and `operations` both attach to operations.rs; several harness files may
    attach to one source file (suffix after `__`)."""
    base = key[2:] if (key.startswith("p_") or key.startswith("x_")) else key
    base = base.split("__")[0]
    return base


def harness_files():
    out = []
    for f in sorted(os.listdir(HARNESS_DIR)):
        if f.endswith(".rs"):
            out.append(f[:-3])
    return out


def mod_name(key):
    return "verif_" + key


def harness_path(key, fn):
    base = module_of(key)
    _, mod = ATTACH[base]
    parts = ["minimq"] if False else []
    if mod:
        parts.append(mod)
    parts.append(mod_name(key))
    parts.append(fn)
    return "::".join(parts)


class OverlayError(Exception):
    pass


def make(kind, dest):
    """Create overlay `kind` ('c' or 'p') at dest from REPO's working tree."""
    os.makedirs(dest)
    for f in ("Cargo.toml", "Cargo.lock", "README.md"):
        shutil.copy2(os.path.join(REPO, f), os.path.join(dest, f))
    shutil.copytree(os.path.join(REPO, "src"), os.path.join(dest, "src"))
    os.makedirs(os.path.join(dest, "tests"), exist_ok=True)
    if os.path.isdir(os.path.join(REPO, "tests", "support")):
        shutil.copytree(os.path.join(REPO, "tests", "support"), os.path.join(dest, "tests", "support"))
    # strip the [[example]] stanza and dev-dependencies that need files we do not copy
    toml = open(os.path.join(dest, "Cargo.toml")).read()
    toml = re.sub(r"\n\[\[example\]\][^\[]*", "\n", toml)
    if kind == "p":
        toml = toml.replace("[features]\n", "[features]\nkani_projection = []\n")
    toml += "\n[workspace]\n"
    toml += '\n[lints.rust]\nunexpected_cfgs = { level = "allow", check-cfg = ["cfg(kani)"] }\n'
    open(os.path.join(dest, "Cargo.toml"), "w").write(toml)
    os.makedirs(os.path.join(dest, ".cargo"), exist_ok=True)
    open(os.path.join(dest, ".cargo", "config.toml"), "w").write("[net]\noffline = true\n")

    stats = {"kind": kind, "attached": []}
    if kind == "p":
        stats["projection"] = project(dest)

    lib = os.path.join(dest, "src/lib.rs")
    text = open(lib).read()
    text = '#![cfg_attr(kani, recursion_limit = "1024")]\n#![cfg_attr(kani, allow(dead_code, unused_imports, unused_variables, unused_mut, static_mut_refs))]\n' + text
    open(lib, "w").write(text)

    for key in harness_files():
        is_p = key.startswith("p_")
        # `common` and the shared `x_*` files are attached to both overlays
        shared = key == "common" or key.startswith("x_")
        if not shared and (is_p != (kind == "p")):
            continue
        base = module_of(key)
        if base not in ATTACH:
            raise OverlayError("harness file %s.rs has no attach point" % key)
        src, _ = ATTACH[base]
        path = os.path.join(dest, src)
        if not os.path.exists(path):
            raise OverlayError("attach point %s missing in the working tree" % src)
        name = "verif_common" if key == "common" else mod_name(key)
        with open(path, "a") as fh:
            fh.write('\n#[cfg(kani)]\n#[path = "%s"]\npub(crate) mod %s;\n'
                     % (os.path.join(HARNESS_DIR, key + ".rs"), name))
        stats["attached"].append({"harness_file": key + ".rs", "into": src})
    return stats


def project(dest):
    n_async = n_await = 0
    for rel in PROJECTED_FILES:
        p = os.path.join(dest, rel)
        t = open(p).read()
        t, a = re.subn(r"\basync fn\b", "fn", t)
        t, b = re.subn(r"\.await\b", "", t)
        n_async += a
        n_await += b
        if rel.endswith("drive.rs"):
            t, c = re.subn(r"use embassy_time::\{Duration, Instant, with_deadline\};",
                           "use embassy_time::{Duration, Instant};\nuse crate::verif_common::with_deadline;", t)
            if c != 1:
                raise OverlayError("projection: with_deadline import not found in drive.rs")
        open(p, "w").write(t)
    # handshake.rs: two extra mechanical edits (see PROJECTION_RULES): a cut point after the CONNECT has
    # been written, and the CONNACK property loop iterating a ghost slice instead of the lazily
    # decoding iterator (which cannot be stubbed: `impl Iterator`)
    p = os.path.join(dest, "src/mqtt_client/session/handshake.rs")
    t = open(p).read()
    t, a = re.subn(r"ack\.properties\.iter\(\)", "crate::verif_common::stub_props_iter(&ack.properties)", t)
    anchor = "        self.runtime.next_ping = None;\n        self.runtime.ping_timeout = None;\n\n        if let Err(err) = fill_packet_reader("
    b = t.count(anchor)
    t = t.replace(anchor, "        if crate::verif_common::cut_after_connect() {\n            return Err(Error::Disconnected);\n        }\n" + anchor)
    if a != 1 or b != 1:
        raise OverlayError("projection: handshake.rs anchors not found (props loop %d, cut point %d)" % (a, b))
    open(p, "w").write(t)
    p = os.path.join(dest, "src/mqtt_client/mod.rs")
    t = open(p).read()
    t, a = re.subn(r"pub trait Io: Read \+ Write \+ ErrorType \{\}\n", SYNC_IO, t)
    t, b = re.subn(r"impl<T> Io for T where T: Read \+ Write \+ ErrorType \{\}\n", "", t)
    if a != 1 or b != 1:
        raise OverlayError("projection: Io trait definition not found in mqtt_client/mod.rs")
    open(p, "w").write(t)
    return {"async_fn_rewritten": n_async, "await_removed": n_await, "rules": PROJECTION_RULES}
