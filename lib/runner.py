"""Runner for the solver-based checks (see ../check for the contract)."""
import json, os, re, shlex, shutil, signal, subprocess, sys, time, threading

import overlay

HERE = overlay.HERE
CACHE = os.path.join(HERE, ".cache")
WARM = os.path.join(CACHE, "warm-target")
EVIDENCE = os.path.join(HERE, "evidence")
REPLAYS = os.path.join(HERE, "replays")
KF_FILE = os.path.join(HERE, "known_findings.json")
KANI_FLAGS = ["--no-default-features", "-Z", "stubbing", "-Z", "unstable-options"]

HEAVY_JOBS = int(os.environ.get("VERIF_HEAVY_JOBS", "3"))
HEAVY_CHUNK = int(os.environ.get("VERIF_HEAVY_CHUNK", "6"))
QUICK_TIMEOUT = int(os.environ.get("VERIF_QUICK_HARNESS_TIMEOUT", "720"))
THOROUGH_TIMEOUT = int(os.environ.get("VERIF_THOROUGH_HARNESS_TIMEOUT", "2700"))


def log(*a):
    print(*a, flush=True)


# ------------------------------------------------------------------------------------------------
# harness registry: parsed from the `// @harness k=v ...` comment lines in harness/*.rs
# ------------------------------------------------------------------------------------------------
class Harness:
    def __init__(self, name, key, meta, stubs, unwind):
        self.name = name
        self.key = key
        self.kind = "p" if key.startswith("p_") else "c"
        self.props = [p.strip() for p in meta.get("props", "").split(",") if p.strip()]
        self.tier = meta.get("tier", "quick")
        # optional narrower property list for the quick tier (expensive harnesses)
        self.quick_props = [p.strip() for p in meta.get("quick_props", "").split(",") if p.strip()] or self.props
        self.layer = meta.get("layer", "?")
        self.funcs = meta.get("funcs", "")
        self.sym = meta.get("sym", "")
        self.bounds = meta.get("bounds", "")
        self.assumes = meta.get("assumes", "")
        self.heavy = meta.get("heavy", "0") not in ("0", "", "no")
        self.expect_unsat_covers = int(meta.get("unsat_covers", "0"))
        self.stubs = stubs
        self.unwind = unwind
        self.path = overlay.harness_path(key, name)


def discover():
    hs = []
    for key in overlay.harness_files():
        if key == "common" or key.startswith("x_"):
            continue
        meta, stubs, unwind, in_proof = {}, [], None, False
        for line in open(os.path.join(overlay.HARNESS_DIR, key + ".rs")):
            s = line.strip()
            if s.startswith("// @harness"):
                for tok in shlex.split(s[len("// @harness"):]):
                    if "=" in tok:
                        k, v = tok.split("=", 1)
                        meta[k] = (meta[k] + "; " + v) if k in ("funcs", "sym", "bounds", "assumes") and k in meta else v
            elif line.startswith("#[kani::proof"):  # column 0 only: not the one inside a harness macro
                in_proof = True
            elif line.startswith("#[kani::unwind("):
                d = re.findall(r"\d+", s)
                unwind = int(d[0]) if d else None
            elif line.startswith("#[kani::stub("):
                m = re.match(r"#\[kani::stub\(([^,]+),", s)
                if m:
                    stubs.append(m.group(1).strip())
            elif re.match(r"^(\w+)_harness!\(\s*(\w+)", s):
                # harness declared through a macro that attaches the abstract-outbound stubs
                m = re.match(r"^(\w+)_harness!\(\s*(\w+)", s)
                if not meta.get("props"):
                    raise SystemExit("harness %s in %s.rs has no @harness props" % (m.group(2), key))
                hs.append(Harness(m.group(2), key, meta, ["abstract outbound K1-K7 (%s)" % m.group(1)], int(meta.get("unwind", "0")) or None))
                meta, stubs, unwind, in_proof = {}, [], None, False
            elif in_proof and re.match(r"(pub(\(crate\))?\s+)?fn\s+(\w+)\s*\(", s):
                name = re.match(r"(pub(\(crate\))?\s+)?fn\s+(\w+)\s*\(", s).group(3)
                if not meta.get("props"):
                    raise SystemExit("harness %s in %s.rs has no @harness props" % (name, key))
                hs.append(Harness(name, key, meta, stubs, unwind))
                meta, stubs, unwind, in_proof = {}, [], None, False
    names = [h.name for h in hs]
    dup = set(n for n in names if names.count(n) > 1)
    if dup:
        raise SystemExit("duplicate harness names: %s" % dup)
    return hs


def select(hs, prop, tier, only=None):
    out = []
    for h in hs:
        if prop != "ALL" and prop not in h.props:
            continue
        if tier == "quick" and h.tier != "quick":
            continue
        if tier == "quick" and prop != "ALL" and prop not in h.quick_props:
            continue
        if only and not any(o in h.name for o in only):
            continue
        out.append(h)
    return out


# ------------------------------------------------------------------------------------------------
# known findings
# ------------------------------------------------------------------------------------------------
def load_known():
    if not os.path.exists(KF_FILE):
        return []
    d = json.load(open(KF_FILE))
    return [f for f in d.get("findings", []) if f.get("status") == "known"]


KF_RE = re.compile(r"KF:([A-Za-z0-9_/.-]+)")


# ------------------------------------------------------------------------------------------------
# running kani
# ------------------------------------------------------------------------------------------------
def env_for_kani():
    e = dict(os.environ)
    e["CARGO_NET_OFFLINE"] = "true"
    e.pop("RUSTFLAGS", None)
    e.pop("RUSTUP_TOOLCHAIN", None)
    return e


def ensure_warm():
    """Dependency build shared by all runs (made by setup_cmd; rebuilt here if missing)."""
    if os.path.isdir(os.path.join(WARM, "kani")):
        return
    os.makedirs(CACHE, exist_ok=True)
    scratch = scratch_dir("warm")
    try:
        ov = os.path.join(scratch, "c")
        # the warm build uses a crate without harness modules: only dependencies matter
        overlay.make("c", ov)
        tmp = WARM + ".tmp.%d" % os.getpid()
        shutil.rmtree(tmp, ignore_errors=True)
        r = subprocess.run(["cargo", "kani"] + KANI_FLAGS + ["--only-codegen", "--target-dir", tmp],
                           cwd=ov, env=env_for_kani(), stdout=subprocess.PIPE, stderr=subprocess.STDOUT, text=True)
        if r.returncode != 0:
            log(r.stdout[-4000:])
            raise SystemExit(2)
        # drop the crate's own artifacts: they are rebuilt from the working tree on every run
        shutil.rmtree(os.path.join(tmp, "result_output_dir"), ignore_errors=True)
        if os.path.isdir(WARM):
            shutil.rmtree(tmp, ignore_errors=True)
        else:
            os.rename(tmp, WARM)
    finally:
        shutil.rmtree(scratch, ignore_errors=True)


def scratch_dir(tag):
    base = os.environ.get("VERIF_SCRATCH") or os.environ.get("TMPDIR") or "/tmp"
    d = os.path.join(base, "minimq-verif.%s.%d" % (tag, os.getpid()))
    shutil.rmtree(d, ignore_errors=True)
    os.makedirs(d)
    return d


class GroupRun:
    """One `cargo kani` process over one overlay for a set of harnesses."""

    def __init__(self, kind, harnesses, scratch, jobs, timeout_s, mem_kb, tag="", extra=None):
        self.kind, self.harnesses, self.jobs, self.timeout_s = kind, harnesses, jobs, timeout_s
        self.ov = os.path.join(scratch, "ov-" + kind)
        self.target = os.path.join(scratch, "target-%s%s" % (kind, tag))
        self.mem_kb = mem_kb
        self.extra = extra or []
        self.proc = None
        self.output = ""
        self.t0 = None
        self.wall = 0.0

    def start(self):
        if not os.path.isdir(self.target):
            if os.path.isdir(WARM):
                subprocess.run(["cp", "-a", WARM, self.target], check=True)
        cmd = ["cargo", "kani"] + KANI_FLAGS + (["--features", "kani_projection"] if self.kind == "p" else []) + [
            "--target-dir", self.target, "--output-format", "terse", "--output-into-files",
            "--harness-timeout", "%ds" % self.timeout_s, "-j", str(self.jobs), "--exact"] + self.extra
        for h in self.harnesses:
            cmd += ["--harness", h.path]
        # no `ulimit -v` here: it also applies to kani-driver, which aborts ("memory allocation failed",
        # all remaining harnesses of the group lost) when parsing large CBMC outputs with -j threads, and it
        # turns CBMC checks into `Status: ERROR`.  Memory is bounded by the job limits (HEAVY_JOBS) instead.
        sh = "exec %s" % " ".join(shlex.quote(c) for c in cmd)
        self.t0 = time.time()
        self.logf = open(os.path.join(os.path.dirname(self.ov), "kani-%s%s.log" % (self.kind, os.path.basename(self.target))), "w+")
        self.proc = subprocess.Popen(["bash", "-c", sh], cwd=self.ov, env=env_for_kani(),
                                     stdout=self.logf, stderr=subprocess.STDOUT, start_new_session=True)

    def wait(self, deadline):
        try:
            self.proc.wait(timeout=max(1, deadline - time.time()))
        except subprocess.TimeoutExpired:
            try:
                os.killpg(self.proc.pid, signal.SIGKILL)
            except ProcessLookupError:
                pass
            self.proc.wait()
        self.wall = time.time() - self.t0
        self.logf.seek(0)
        self.output = self.logf.read()
        self.logf.close()

    def result_file(self, h):
        return os.path.join(self.target, "result_output_dir", h.path)


CHECK_RE = re.compile(
    r"^Check (\d+): (\S+)\n\s+- Status: (\w+)\n\s+- Description: \"(.*?)\"\n\s+- Location: (.*?)$",
    re.M | re.S)


def parse_result(text):
    """Parse one per-harness result file written by kani (--output-into-files)."""
    res = {"checks": [], "verdict": None, "time_s": None}
    # split into check blocks
    blocks = re.split(r"\n(?=Check \d+: )", text)
    for b in blocks:
        m = re.match(r"Check (\d+): ([^\n]+)\n\s+- Status: (\w+)\n\s+- Description: \"(.*)\"\n\s+- Location: (.*)", b, re.S)
        if not m:
            continue
        loc = m.group(5).split("\n")[0].strip()
        res["checks"].append({"name": m.group(2), "status": m.group(3), "desc": m.group(4), "loc": loc})
    m = re.search(r"VERIFICATION:- (\w+)", text)
    if m:
        res["verdict"] = m.group(1)
    m = re.search(r"Verification Time: ([0-9.]+)s", text)
    if m:
        res["time_s"] = float(m.group(1))
    res["raw_tail"] = text[-600:]
    res["cbmc_error"] = bool(re.search(r"CBMC failed|Status: ERROR|out of memory|std::bad_alloc|timed out|TIMEOUT", text, re.I)) and not res["checks"]
    return res


REAL_CLASSES = (".assertion.", ".arithmetic_overflow.", ".overflow.", ".bounds_check.", ".division_by_zero.", ".array_bounds.", ".cover.")


def is_real_failure_class(c):
    """a failing user/library assertion, panic, arithmetic overflow, index or division check - as opposed
    to Kani's generated pointer validity / alignment / unreachable-code checks"""
    name = c["name"]
    if any(k in name for k in REAL_CLASSES):
        # "unreachable code" is reported under .assertion. too
        return c["desc"] != "unreachable code"
    return False


def is_user_location(loc):
    """failing check located in the crate under test or in a harness (not in core/heapless/kani)"""
    l = loc.lstrip("./")
    return "verif/harness/" in loc or l.startswith("src/") or "/harness/" in loc


def classify(h, res, known_tags):
    """-> dict(state, failures, known, covers, notes)"""
    out = {"state": "ok", "failures": [], "lib_failures": [], "known": [], "unwind": [], "covers_sat": 0, "covers_total": 0,
           "covers_unsat": [], "n_checks": 0, "n_success": 0, "n_unreachable": 0, "n_undetermined": 0, "n_error": 0}
    for c in res["checks"]:
        is_cover = ".cover." in c["name"] or c["status"] in ("SATISFIED", "UNSATISFIABLE")
        if is_cover:
            out["covers_total"] += 1
            if c["status"] == "SATISFIED":
                out["covers_sat"] += 1
            else:
                out["covers_unsat"].append("%s [%s] %s" % (c["desc"], c["status"], c["loc"].split(" in function")[0]))
            continue
        out["n_checks"] += 1
        st = c["status"]
        if st == "SUCCESS":
            out["n_success"] += 1
        elif st == "UNREACHABLE":
            out["n_unreachable"] += 1
        elif st == "UNDETERMINED":
            out["n_undetermined"] += 1
        elif st == "ERROR":
            # CBMC could not decide this check (solver error, typically memory exhausted under the
            # ulimit): NOT a failure - the harness is inconclusive
            out["n_error"] += 1
        elif st == "FAILURE":
            if "unwinding assertion" in c["desc"] or ".unwind." in c["name"]:
                out["unwind"].append(c)
            else:
                m = KF_RE.search(c["desc"])
                if m and m.group(1) in known_tags:
                    out["known"].append((m.group(1), c))
                elif is_real_failure_class(c):
                    out["failures"].append(c)
                else:
                    # only Kani-generated pointer/alignment/"unreachable" checks failed: twice seen as an
                    # engine artefact of harnesses that exhaust memory (18-28 GB), with no failing
                    # assertion, overflow or bounds check anywhere; believed only if it reproduces natively
                    out["lib_failures"].append(c)
        else:
            out["failures"].append(c)
    if out["n_error"]:
        out["state"] = "solver_error(out of memory?)"
    elif out["failures"]:
        out["failures"] += out["lib_failures"]
        out["state"] = "violation"
    elif out["lib_failures"]:
        out["failures"] = out["lib_failures"]
        out["state"] = "suspect"
    elif out["known"] and not out["unwind"]:
        # the only failing checks are assertions tagged with a listed known finding
        out["state"] = "known"
    elif out["unwind"]:
        out["state"] = "bound_too_small"
    elif res["verdict"] != "SUCCESSFUL" or out["n_checks"] == 0:
        out["state"] = "timeout" if "timed out" in res.get("raw_tail", "") else "inconclusive"
    elif out["covers_total"] - out["covers_sat"] > h.expect_unsat_covers:
        out["state"] = "vacuous"
    elif out["n_undetermined"]:
        out["state"] = "inconclusive"
    return out


# ------------------------------------------------------------------------------------------------
# replay of a counterexample
# ------------------------------------------------------------------------------------------------
def replay_without_playback(h, prop, failures):
    """Harnesses that use stubs / contracts cannot be played back natively (Kani's playback does not
    apply stubs) and their concrete-playback run costs up to 45 min (trace generation on a coroutine
    harness).  The replay file names the harness and the failing checks; `./check <id> --replay <file>`
    re-runs exactly that harness."""
    os.makedirs(os.path.join(REPLAYS, prop), exist_ok=True)
    path = os.path.join(REPLAYS, prop, h.name + ".rs")
    with open(path, "w") as fh:
        fh.write("// Counterexample of harness %s (property %s): failing checks of the solver run.\n" % (h.path, prop))
        fh.write("// Re-run: ./check %s --replay %s\n" % (prop, path))
        fh.write("// harness-file: harness/%s.rs  overlay: %s  stubs: %s\n" % (h.key, h.kind, ", ".join(h.stubs) or "none"))
        for c in failures[:20]:
            fh.write("// failed: %s @ %s\n" % (c["desc"], c["loc"]))
    return path, None


def concrete_playback(h, scratch, prop):
    """Re-run the failing harness with -Z concrete-playback=print; store the generated unit test.
    Returns (path, confirmed) where confirmed is True/False/None (None: native replay not possible)."""
    ov = os.path.join(scratch, "ov-" + h.kind)
    target = os.path.join(scratch, "target-replay")
    if not os.path.isdir(target) and os.path.isdir(WARM):
        subprocess.run(["cp", "-a", WARM, target], check=True)
    cmd = ["cargo", "kani"] + KANI_FLAGS + (["--features", "kani_projection"] if h.kind == "p" else []) + ["-Z", "concrete-playback", "--concrete-playback=print",
                                            "--target-dir", target, "--exact", "--harness", h.path]
    r = subprocess.run(cmd, cwd=ov, env=env_for_kani(), stdout=subprocess.PIPE, stderr=subprocess.STDOUT,
                       text=True, timeout=THOROUGH_TIMEOUT)
    os.makedirs(os.path.join(REPLAYS, prop), exist_ok=True)
    path = os.path.join(REPLAYS, prop, h.name + ".rs")
    tests = re.findall(r"```\n(.*?)```", r.stdout, re.S)
    tests = [t for t in tests if "kani_concrete_playback" in t]
    non_cover = [t for t in tests if "Check for `cover`" not in t]
    body = (non_cover or tests or [""])[0]
    failed = re.findall(r'Failed Checks: (.*)', r.stdout)
    with open(path, "w") as fh:
        fh.write("// Counterexample for harness %s (property %s), produced by CBMC through\n" % (h.path, prop))
        fh.write("// `cargo kani -Z concrete-playback --concrete-playback=print`.\n")
        fh.write("// Re-run: ./check %s --replay %s\n" % (prop, path))
        fh.write("// harness-file: harness/%s.rs  overlay: %s  stubs: %s\n" % (h.key, h.kind, ", ".join(h.stubs) or "none"))
        for f in failed:
            fh.write("// failed: %s\n" % f)
        fh.write(body if body else "// (kani produced no concrete test: the failing check has no kani::any input)\n")
    # The playback run is also a second, independent solver run of the same harness.  Three times a
    # first run reported failures (library pointer checks, or harness-internal index checks) that a
    # second run did not: such a non-reproducible verdict is an engine artefact, never a violation.
    rerun_failed = bool(failed) or "VERIFICATION:- FAILED" in r.stdout
    if not rerun_failed:
        return path, False
    has_failing_test = any("Check for `cover`" not in t for t in tests)
    if not body or not has_failing_test or h.stubs or h.kind == "p":
        return path, None
    confirmed = native_playback(h, scratch, body)
    return path, confirmed


def native_playback(h, scratch, body):
    """Compile the generated test into a copy of the overlay and run it natively (`cargo kani playback`)."""
    try:
        src_ov = os.path.join(scratch, "ov-" + h.kind)
        ov = os.path.join(scratch, "ov-playback")
        shutil.rmtree(ov, ignore_errors=True)
        shutil.copytree(src_ov, ov)
        # copy the harness module next to the sources so that the test can be appended to it
        hf = os.path.join(ov, "verif_" + h.key + ".rs")
        shutil.copy2(os.path.join(overlay.HARNESS_DIR, h.key + ".rs"), hf)
        with open(hf, "a") as fh:
            fh.write("\n#[cfg(test)]\nmod kani_playback {\n    use super::*;\n    use std::vec;\n    use std::vec::Vec;\n" + body + "\n}\n")
        base = overlay.module_of(h.key)
        src = os.path.join(ov, overlay.ATTACH[base][0])
        t = open(src).read()
        t = t.replace('#[path = "%s"]' % os.path.join(overlay.HARNESS_DIR, h.key + ".rs"), '#[path = "%s"]' % hf)
        open(src, "w").write(t)
        test = re.search(r"fn (kani_concrete_playback_\w+)", body).group(1)
        env = env_for_kani()
        results = []
        for prof in ([], ["--release"]):
            r = subprocess.run(["cargo", "kani", "playback", "-Z", "concrete-playback", "--no-default-features"] + prof + ["--", test],
                               cwd=ov, env=env, stdout=subprocess.PIPE, stderr=subprocess.STDOUT, text=True, timeout=1800)
            if "test result: FAILED" in r.stdout or "panicked at" in r.stdout:
                results.append(True)
            elif "test result: ok" in r.stdout:
                results.append(False)
            else:
                results.append(None)
        if any(x is True for x in results):
            return True
        if all(x is False for x in results):
            return False
        return None
    except Exception as e:  # noqa
        log("native playback unavailable: %r" % (e,))
        return None


# ------------------------------------------------------------------------------------------------
# main
# ------------------------------------------------------------------------------------------------
def run_property(prop, tier, only=None, keep=False, seed=0):
    t_start = time.time()
    hs_all = discover()
    hs = select(hs_all, prop, tier, only)
    if not hs:
        log("no harness registered for %s tier %s" % (prop, tier))
        return 2
    known = [f for f in load_known() if prop in f.get("properties", [])]
    known_tags = {f["tag"]: f for f in known}
    ensure_warm()
    scratch = scratch_dir(prop)
    exit_code = 0
    samples, notes = [], []
    evaluations = nontrivial = 0
    violations = []
    kf_hit = {}
    overlay_stats = {}
    try:
        kinds = sorted(set(h.kind for h in hs))
        for k in kinds:
            overlay_stats[k] = overlay.make(k, os.path.join(scratch, "ov-" + k))
        per_to = QUICK_TIMEOUT if tier == "quick" else THOROUGH_TIMEOUT
        mem_kb = (22 if tier == "quick" else 30) * 1024 * 1024
        # deterministic order; the seed only permutes scheduling
        hs.sort(key=lambda h: (hash((h.name, seed)) if seed else 0, h.name))
        groups = []
        total_jobs = int(os.environ.get("VERIF_JOBS", "13" if tier == "quick" else "10"))
        light = {k: [h for h in hs if h.kind == k and not h.heavy] for k in kinds}
        heavy = {k: [h for h in hs if h.kind == k and h.heavy] for k in kinds}
        n_groups = sum(1 for k in kinds if light[k]) + sum(1 for k in kinds if heavy[k])
        # heavy harnesses (L3c coroutines: 2-13 GB each) run at most HEAVY_JOBS at a time; the remaining
        # job slots are shared by the light groups in proportion to their number of harnesses
        n_heavy = sum(len(heavy[x]) for x in kinds)
        heavy_jobs = min(HEAVY_JOBS, n_heavy)
        light_jobs = max(2, total_jobs - heavy_jobs)
        # projection harnesses are few but slow (100-400 s each): weight them x3 when sharing job slots
        w = {x: len(light[x]) * (3 if x == "p" else 1) for x in kinds}
        n_light = sum(w.values())
        for k in kinds:
            if light[k]:
                share = max(2, round(light_jobs * w[k] / max(1, n_light)))
                groups.append(GroupRun(k, light[k], scratch, min(len(light[k]), share), per_to, mem_kb))
            if heavy[k]:
                share = max(1, round(heavy_jobs * len(heavy[k]) / max(1, n_heavy)))
                groups.append(GroupRun(k, heavy[k], scratch, min(len(heavy[k]), share), per_to, mem_kb, tag="-heavy"))
        # Heavy groups are split into chunks of at most HEAVY_CHUNK harnesses per cargo-kani process (the
        # kani-driver process grows to 10 GB when it collects the output of many coroutine harnesses and
        # was killed by the OOM killer, losing the rest of its group); the chunks of a chain run one after
        # the other while the light groups run beside them.
        chains = []
        for g in groups:
            if g.target.endswith("-heavy") and len(g.harnesses) > HEAVY_CHUNK:
                parts = [g.harnesses[i:i + HEAVY_CHUNK] for i in range(0, len(g.harnesses), HEAVY_CHUNK)]
                chains.append([GroupRun(g.kind, part, scratch, min(g.jobs, len(part)), per_to, mem_kb, tag="-heavy%d" % n)
                               for n, part in enumerate(parts)])
            else:
                chains.append([g])
        budget = per_to * 3 + 600

        def run_chain(chain):
            for gr in chain:
                gr.start()
                gr.wait(time.time() + budget)

        threads = [threading.Thread(target=run_chain, args=(c,)) for c in chains]
        for th in threads:
            th.start()
        for th in threads:
            th.join()
        groups = [gr for c in chains for gr in c]
        for g in groups:
            build_failed = "error: could not compile" in g.output or "error[E" in g.output
            for h in g.harnesses:
                rf = g.result_file(h)
                rec = {"harness": h.name, "layer": h.layer, "overlay": h.kind, "functions_encoded": h.funcs,
                       "symbolic": h.sym, "bounds": h.bounds, "unwind": h.unwind, "stubs": h.stubs}
                if h.assumes:
                    rec["assumes"] = h.assumes
                if not os.path.exists(rf):
                    rec["verdict"] = "build_failed" if build_failed else "no_result(timeout/oom/crash)"
                    samples.append(rec)
                    exit_code = max(exit_code, 2)
                    notes.append("%s: %s" % (h.name, rec["verdict"]))
                    continue
                res = parse_result(open(rf).read())
                cl = classify(h, res, known_tags)
                rec.update({"verdict": cl["state"], "kani_verdict": res["verdict"], "solver_checks": cl["n_checks"],
                            "checks_success": cl["n_success"], "checks_unreachable": cl["n_unreachable"],
                            "covers": "%d/%d" % (cl["covers_sat"], cl["covers_total"]), "verification_time_s": res["time_s"]})
                evaluations += cl["n_checks"] + cl["covers_total"]
                if cl["known"]:
                    rec["known_findings"] = sorted(set(t for t, _ in cl["known"]))
                    for t, c in cl["known"]:
                        kf_hit.setdefault(t, []).append(h.name)
                if cl["state"] in ("ok", "known"):
                    nontrivial += 1
                elif cl["state"] == "violation":
                    nontrivial += 1
                    rec["failed_checks"] = ["%s @ %s" % (c["desc"], c["loc"]) for c in cl["failures"]][:10]
                    violations.append((h, cl))
                else:
                    exit_code = max(exit_code, 2)
                    if cl["covers_unsat"]:
                        rec["unsatisfied_witnesses"] = cl["covers_unsat"]
                    if cl["unwind"]:
                        rec["unwinding_failures"] = [c["loc"] for c in cl["unwind"]][:5]
                    notes.append("%s: %s" % (h.name, cl["state"]))
                samples.append(rec)
            if build_failed:
                m = re.findall(r"^(error.*(?:\n.*){0,6})", g.output, re.M)
                log("BUILD FAILED in overlay %s:\n%s" % (g.kind, "\n".join(m[:6])))
        # ----- report ------------------------------------------------------------------------
        for t, names in sorted(kf_hit.items()):
            f = known_tags[t]
            log("KNOWN-FINDING: property=%s %s %s (harness %s)" % (prop, f["id"], f["what"], ",".join(sorted(set(names)))))
        n_viol = 0
        for h, cl in violations:
            if (h.stubs or h.kind == "p") and cl["state"] == "violation":
                path, confirmed = replay_without_playback(h, prop, cl["failures"])
            else:
                path, confirmed = concrete_playback(h, scratch, prop)
            for c in cl["failures"][:5]:
                log("  failed: %s @ %s" % (c["desc"], c["loc"]))
            if confirmed is False or (cl["state"] == "suspect" and confirmed is not True):
                log("UNCONFIRMED property=%s harness=%s: the solver counterexample did not reproduce (second solver run or native playback)%s (%s)"
                    % (prop, h.name, " (only library-internal checks failed: treated as an engine artefact)" if cl["state"] == "suspect" else "", path))
                exit_code = max(exit_code, 2)
                notes.append("%s: unconfirmed counterexample" % h.name)
                continue
            how = "reproduced natively (dev/release playback)" if confirmed else "solver counterexample on the compiled code (native playback not applicable: %s)" % (
                "stubs/contracts in use" if (h.stubs or h.kind == "p") else "no concrete test generated")
            log("VIOLATION property=%s replay=%s" % (prop, path))
            log("  harness=%s %s" % (h.name, how))
            n_viol += 1
        if n_viol:
            exit_code = 1
        wall = time.time() - t_start
        ev = {
            "property_id": prop, "tier": tier, "seed": seed, "level": "model_checking",
            "coverage": {
                "evaluations": evaluations,
                "distinct_nontrivial": nontrivial,
                "rule": "evaluations = verification conditions + cover witnesses decided by CBMC/CaDiCaL over all values of the "
                        "symbolic inputs (one SAT query each, per harness); distinct_nontrivial = harnesses whose every condition is "
                        "UNSAT-proved within the stated unwinding, whose unwinding assertions hold and whose reachability witnesses "
                        "(kani::cover!) are all SATISFIED",
                "samples": samples,
                "harnesses_run": len(hs),
                "exhaustive": False,
                "engine": "Kani 0.68.0 / CBMC 6.11.0 / CaDiCaL; encoding regenerated from /repo working tree on this run",
                "overlays": overlay_stats,
            },
            "assumptions": assumptions_for(hs),
            "wall_s": round(wall, 1),
            "violations": n_viol,
            "known_findings": [{"id": known_tags[t]["id"], "tag": t, "harnesses": sorted(set(n))} for t, n in kf_hit.items()],
            "inconclusive": notes,
        }
        os.makedirs(EVIDENCE, exist_ok=True)
        with open(os.path.join(EVIDENCE, prop + ".json"), "w") as fh:
            json.dump(ev, fh, indent=1)
        ok = sum(1 for s in samples if s["verdict"] in ("ok", "known"))
        log("%s tier=%s harnesses=%d ok=%d violations=%d known=%d inconclusive=%d solver_checks=%d wall=%.0fs"
            % (prop, tier, len(hs), ok, n_viol, len(kf_hit), len(notes), evaluations, wall))
        for n in notes:
            log("  INCONCLUSIVE " + n)
        return exit_code
    finally:
        if keep:
            log("scratch kept at " + scratch)
        else:
            if exit_code == 2:
                # keep the kani logs of an inconclusive run for diagnosis (small text files)
                try:
                    dst = os.path.join(CACHE, "last-inconclusive-%s" % prop)
                    shutil.rmtree(dst, ignore_errors=True)
                    os.makedirs(dst)
                    for f in os.listdir(scratch):
                        if f.endswith(".log"):
                            shutil.copy2(os.path.join(scratch, f), dst)
                except Exception:
                    pass
            shutil.rmtree(scratch, ignore_errors=True)


def assumptions_for(hs):
    a = [
        "Kani 0.68 models the dev profile (overflow checks, debug assertions on), feature `defmt` off, 64-bit usize",
        "bounded claim: every verdict holds for all values of the listed symbolic variables within the listed sizes/unwindings only; "
        "unwinding assertions are on, so a too-small bound is reported, never silently truncated",
    ]
    stubs = sorted(set(s for h in hs for s in h.stubs))
    if stubs:
        a.append("stubs in use (part of the claim): " + ", ".join(stubs))
    if any(h.kind == "p" for h in hs):
        a.append("L3p harnesses run on the schedule-free projection (async fn -> fn, .await removed, synchronous Io): exact for "
                 "executions in which no future is dropped while pending; cancellation is covered by the L3c harnesses")
    for h in hs:
        if h.assumes:
            a.append("%s assumes: %s" % (h.name, h.assumes))
    return a


def main(argv):
    import argparse
    ap = argparse.ArgumentParser()
    ap.add_argument("prop")
    ap.add_argument("--tier", default=os.environ.get("VERIF_TIER", "quick"), choices=["quick", "thorough"])
    ap.add_argument("--only", action="append")
    ap.add_argument("--replay")
    ap.add_argument("--keep", action="store_true")
    ap.add_argument("--list", action="store_true")
    a = ap.parse_args(argv)
    seed = int(os.environ.get("VERIF_SEED", "0") or 0)
    if a.prop == "setup":
        ensure_warm()
        log("warm dependency build at " + WARM)
        return 0
    if a.list:
        for h in select(discover(), a.prop, a.tier, a.only):
            log("%-46s %-8s %-4s %s %s" % (h.name, h.tier, h.layer, h.kind, ",".join(h.props)))
        return 0
    only = a.only
    if a.replay:
        m = re.search(r"([^/]+)\.rs$", a.replay)
        only = [m.group(1)]
        a.tier = "thorough"
    return run_property(a.prop, a.tier, only, a.keep, seed)
