#!/bin/bash
# confirm a seeded change in its scratch worktree: suite passes + demo fails with it, demo passes without it
w=$1
cd $w || exit 1
git status --short | head -5
echo "--- with change:"
cargo test --workspace --offline --no-fail-fast 2>&1 | grep -E "^test result|Running|FAILED" | sed 's/(target.*//' | head -20
echo "--- without change (patch reversed):"
git apply -R _seed/patch.diff || { echo "reverse apply failed"; exit 1; }
cargo test --offline --test seed_demo 2>&1 | grep -E "^test result|FAILED" | head
git apply _seed/patch.diff
