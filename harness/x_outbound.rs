//! The ABSTRACT OUTBOUND (DESIGN.md 2.5) and the ghost transport, shared by the L3c (coroutine)
//! and L3p (projection) harnesses.  Every `Outbound` method the glue calls is replaced by a stub
//! that drives a small ghost machine and appends to an event log.  The clauses the stubs rely on
//! (K1..K7) are discharged on the real `Outbound` by harness/outbound.rs.
//!
//! Ghost machine: at most one *current* entry (kind, len, written, awaiting-flush) plus up to two
//! queued fresh entries; all state lives in `static mut` so it can be read while a future borrows
//! the connection.
#![allow(static_mut_refs)]
use super::*;

// entry kinds
pub(crate) const K_NONE: u8 = 0;
pub(crate) const K_ACK: u8 = 1; // ControlAction::PubAck{7, Success}: 40 03 00 07 00
pub(crate) const K_PING: u8 = 2; // ControlAction::PingReq: C0 00
pub(crate) const K_REL: u8 = 3; // PUBREL id 9: 62 03 00 09 00
pub(crate) const K_RET: u8 = 4; // retained packet id 5 at RET_OFF, length LEN

pub(crate) const ACK_ACTION: ControlAction = ControlAction::PubAck { packet_id: 7, reason: ReasonCode::Success };
pub(crate) const REL_ID: u16 = 9;
pub(crate) const RET_ID: u16 = 5;

pub(crate) static mut KIND: u8 = 0;
pub(crate) static mut LEN: usize = 0;
pub(crate) static mut WRITTEN: usize = 0;
pub(crate) static mut FLUSH: bool = false;
pub(crate) static mut RET_OFF: usize = 0;
/// queued fresh entries behind the current one (kinds), promoted in order
pub(crate) static mut Q: [u8; 2] = [0; 2];
pub(crate) static mut Q_LEN: [usize; 2] = [0; 2];
pub(crate) static mut Q_OFF: [usize; 2] = [0; 2];

// capacity answers (set by the harness, may be symbolic)
pub(crate) static mut FULL: bool = false;
pub(crate) static mut CAN_RETAIN: bool = true;
pub(crate) static mut SCRATCH: usize = 16;
pub(crate) static mut ENC_FAIL: bool = false;
pub(crate) static mut ENC_OFF: usize = 0;
pub(crate) static mut ENC_LEN: usize = 4;
pub(crate) static mut QCTRL_FAIL: bool = false;

// counters
pub(crate) static mut N_NEXT: u8 = 0;
pub(crate) static mut N_SETW: u8 = 0;
pub(crate) static mut N_FLUSHED: u8 = 0;
pub(crate) static mut N_ARM: u8 = 0;
pub(crate) static mut N_QCTRL: u8 = 0;
pub(crate) static mut N_QPING: u8 = 0;
pub(crate) static mut N_RETAIN: u8 = 0;
pub(crate) static mut N_ENCODE: u8 = 0;
pub(crate) static mut N_CLEAR: u8 = 0;
pub(crate) static mut BAD_TARGET: bool = false;
pub(crate) static mut LAST_RETAIN: (u16, usize, usize) = (0, 0, 0);
pub(crate) static mut LAST_FLUSHED_KIND: u8 = 0;

// transport ghost
pub(crate) static mut IO_WRITES: u8 = 0;
pub(crate) static mut IO_FLUSHES: u8 = 0;
pub(crate) static mut IO_READS: u8 = 0;
pub(crate) static mut IO_ACC: [u8; 24] = [0; 24];
pub(crate) static mut IO_ACC_N: usize = 0;
pub(crate) static mut IO_LAST_WLEN: usize = 0;
pub(crate) static mut IO_LAST_WFIRST: u8 = 0;
pub(crate) static mut IO_ERRS: u8 = 0;
pub(crate) static mut IO_FLUSH_OK: u8 = 0;

// event log
pub(crate) const E_NEXT: u8 = 1;
pub(crate) const E_SETW: u8 = 2;
pub(crate) const E_FLUSHED: u8 = 3;
pub(crate) const E_ARM: u8 = 4;
pub(crate) const E_QCTRL: u8 = 5;
pub(crate) const E_RETAIN: u8 = 6;
pub(crate) const E_ENCODE: u8 = 7;
pub(crate) const E_IO_WRITE: u8 = 8;
pub(crate) const E_IO_FLUSH: u8 = 9;
pub(crate) const E_IO_READ: u8 = 10;
pub(crate) const E_DRAIN_OK: u8 = 11; // contract A2 returned Ok
pub(crate) const E_DRAIN_ERR: u8 = 12;
pub(crate) const E_CLEAR: u8 = 13;
pub(crate) const E_SCRATCH: u8 = 14;
pub(crate) const E_READER_RESET: u8 = 15;
pub(crate) const E_WRITE_ALL: u8 = 16; // contract A3
pub(crate) const E_STEP: u8 = 17; // contract A1
pub(crate) const LOGCAP: usize = 12;
pub(crate) static mut LOG: [u8; LOGCAP] = [0; LOGCAP];
pub(crate) static mut LOG_N: usize = 0;

pub(crate) fn log(e: u8) {
    unsafe {
        if LOG_N < LOGCAP {
            LOG[LOG_N] = e;
        }
        LOG_N += 1;
    }
}

/// index of the first occurrence of `e` in the log, or usize::MAX
pub(crate) fn first(e: u8) -> usize {
    unsafe {
        let mut i = 0;
        while i < LOGCAP {
            if i < LOG_N && LOG[i] == e {
                return i;
            }
            i += 1;
        }
    }
    usize::MAX
}
pub(crate) fn count(e: u8) -> usize {
    let mut n = 0;
    unsafe {
        let mut i = 0;
        while i < LOGCAP {
            if i < LOG_N && LOG[i] == e {
                n += 1;
            }
            i += 1;
        }
    }
    n
}
/// last occurrence of `e` before position `pos`
pub(crate) fn last_before(e: u8, pos: usize) -> usize {
    let mut r = usize::MAX;
    unsafe {
        let mut i = 0;
        while i < LOGCAP {
            if i < LOG_N && i < pos && LOG[i] == e {
                r = i;
            }
            i += 1;
        }
    }
    r
}

pub(crate) fn kind_len(kind: u8, len: usize) -> usize {
    match kind {
        K_ACK => 5,
        K_PING => 2,
        K_REL => 5,
        _ => len,
    }
}

/// Remaining work measure of the ghost machine (C16): unsent bytes + entries not yet Sent.
pub(crate) fn measure() -> usize {
    unsafe {
        let mut m = 0;
        if KIND != K_NONE {
            m += 1 + (kind_len(KIND, LEN) - WRITTEN.min(kind_len(KIND, LEN)));
        }
        let mut i = 0;
        while i < 2 {
            if Q[i] != K_NONE {
                m += 1 + kind_len(Q[i], Q_LEN[i]);
            }
            i += 1;
        }
        m
    }
}

fn promote() {
    unsafe {
        if KIND == K_NONE && Q[0] != K_NONE {
            KIND = Q[0];
            LEN = kind_len(Q[0], Q_LEN[0]);
            RET_OFF = Q_OFF[0];
            WRITTEN = 0;
            FLUSH = false;
            Q[0] = Q[1];
            Q_LEN[0] = Q_LEN[1];
            Q_OFF[0] = Q_OFF[1];
            Q[1] = K_NONE;
        }
    }
}

fn enqueue(kind: u8, off: usize, len: usize) {
    unsafe {
        if KIND == K_NONE && Q[0] == K_NONE {
            KIND = kind;
            LEN = kind_len(kind, len);
            RET_OFF = off;
            WRITTEN = 0;
            FLUSH = false;
        } else if Q[0] == K_NONE {
            Q[0] = kind;
            Q_LEN[0] = len;
            Q_OFF[0] = off;
        } else {
            // harness bound: at most two queued entries behind the current one
            kani::assume(Q[1] == K_NONE);
            Q[1] = kind;
            Q_LEN[1] = len;
            Q_OFF[1] = off;
        }
    }
}

pub(crate) fn reset_ghost() {
    unsafe {
        KIND = 0;
        LEN = 0;
        WRITTEN = 0;
        FLUSH = false;
        RET_OFF = 0;
        Q = [0; 2];
        FULL = false;
        CAN_RETAIN = true;
        SCRATCH = 16;
        ENC_FAIL = false;
        QCTRL_FAIL = false;
        N_NEXT = 0;
        N_SETW = 0;
        N_FLUSHED = 0;
        N_ARM = 0;
        N_QCTRL = 0;
        N_QPING = 0;
        N_RETAIN = 0;
        N_ENCODE = 0;
        N_CLEAR = 0;
        BAD_TARGET = false;
        IO_WRITES = 0;
        IO_FLUSHES = 0;
        IO_READS = 0;
        IO_ACC_N = 0;
        IO_ERRS = 0;
        IO_FLUSH_OK = 0;
        LOG_N = 0;
    }
}

/// Put the ghost machine into a symbolic state: nothing, or one current entry of symbolic kind in
/// a symbolic phase (fresh / partially written / awaiting flush).  `ret_len` = length of the
/// retained packet if the kind is K_RET.
pub(crate) fn any_current(ret_off: usize, ret_len: usize) {
    unsafe {
        let k: u8 = kani::any();
        kani::assume(k <= K_RET);
        KIND = k;
        if k == K_NONE {
            return;
        }
        RET_OFF = ret_off;
        LEN = kind_len(k, ret_len);
        let w: usize = kani::any();
        kani::assume(w <= LEN);
        WRITTEN = w;
        FLUSH = w == LEN;
    }
}

// ---------------------------------------------------------------------------------------------
// stubs (signatures mirror the real methods; `where 'a: 'a` makes the impl lifetime early-bound)
// ---------------------------------------------------------------------------------------------
pub(crate) fn st_next_step<'a>(_o: &Outbound<'a>) -> Option<OutboundStep>
where
    'a: 'a,
{
    unsafe {
        N_NEXT += 1;
        log(E_NEXT);
        promote();
        let state = if FLUSH { SendState::Flush } else { SendState::Write { written: WRITTEN } };
        match KIND {
            K_ACK => Some(OutboundStep::Control(ControlStep { action: ACK_ACTION, state })),
            K_PING => Some(OutboundStep::Control(ControlStep { action: ControlAction::PingReq, state })),
            K_REL => Some(OutboundStep::Release(ReleaseStep { packet_id: REL_ID, reason: ReasonCode::Success, state })),
            K_RET => Some(OutboundStep::Retained(RetainedStep { packet_id: RET_ID, offset: RET_OFF, len: LEN, state })),
            _ => None,
        }
    }
}

fn record_written(kind_ok: bool, written: usize, len: usize) -> bool {
    unsafe {
        N_SETW += 1;
        log(E_SETW);
        if !kind_ok || len != LEN {
            BAD_TARGET = true;
        }
        WRITTEN = written;
        FLUSH = written >= len;
        true
    }
}

pub(crate) fn st_set_control_written<'a>(_o: &mut Outbound<'a>, action: ControlAction, written: usize, len: usize) -> bool
where
    'a: 'a,
{
    let ok = unsafe { (KIND == K_ACK && action == ACK_ACTION) || (KIND == K_PING && action == ControlAction::PingReq) };
    record_written(ok, written, len)
}
pub(crate) fn st_set_release_written<'a>(_o: &mut Outbound<'a>, packet_id: u16, written: usize, len: usize) -> bool
where
    'a: 'a,
{
    let ok = unsafe { KIND == K_REL && packet_id == REL_ID };
    record_written(ok, written, len)
}
pub(crate) fn st_set_retained_written<'a>(_o: &mut Outbound<'a>, packet_id: u16, written: usize, len: usize) -> bool
where
    'a: 'a,
{
    let ok = unsafe { KIND == K_RET && packet_id == RET_ID };
    record_written(ok, written, len)
}

fn record_flushed(kind_ok: bool) -> bool {
    unsafe {
        N_FLUSHED += 1;
        log(E_FLUSHED);
        if !kind_ok || !FLUSH {
            BAD_TARGET = true;
        }
        LAST_FLUSHED_KIND = KIND;
        KIND = K_NONE;
        WRITTEN = 0;
        FLUSH = false;
        true
    }
}
pub(crate) fn st_flush_control<'a>(_o: &mut Outbound<'a>, action: ControlAction) -> bool
where
    'a: 'a,
{
    let ok = unsafe { (KIND == K_ACK && action == ACK_ACTION) || (KIND == K_PING && action == ControlAction::PingReq) };
    record_flushed(ok)
}
pub(crate) fn st_flush_release<'a>(_o: &mut Outbound<'a>, packet_id: u16) -> bool
where
    'a: 'a,
{
    let ok = unsafe { KIND == K_REL && packet_id == REL_ID };
    record_flushed(ok)
}
pub(crate) fn st_flush_retained<'a>(_o: &mut Outbound<'a>, packet_id: u16) -> bool
where
    'a: 'a,
{
    let ok = unsafe { KIND == K_RET && packet_id == RET_ID };
    record_flushed(ok)
}

pub(crate) fn st_arm_replay<'a>(_o: &mut Outbound<'a>)
where
    'a: 'a,
{
    unsafe {
        N_ARM += 1;
        log(E_ARM);
        WRITTEN = 0;
        FLUSH = false;
    }
}

pub(crate) fn st_clear<'a>(_o: &mut Outbound<'a>)
where
    'a: 'a,
{
    unsafe {
        N_CLEAR += 1;
        log(E_CLEAR);
        KIND = K_NONE;
        Q = [0; 2];
        WRITTEN = 0;
        FLUSH = false;
    }
}

pub(crate) fn st_queue_control<'a>(_o: &mut Outbound<'a>, action: ControlAction) -> Result<(), ProtocolError>
where
    'a: 'a,
{
    unsafe {
        N_QCTRL += 1;
        log(E_QCTRL);
        if QCTRL_FAIL {
            return Err(ProtocolError::InflightMetadataExhausted);
        }
        if action == ControlAction::PingReq {
            N_QPING += 1;
            enqueue(K_PING, 0, 0);
        } else {
            enqueue(K_ACK, 0, 0);
        }
        Ok(())
    }
}

pub(crate) fn st_has_pending_pingreq<'a>(_o: &Outbound<'a>) -> bool
where
    'a: 'a,
{
    unsafe { KIND == K_PING || Q[0] == K_PING || Q[1] == K_PING }
}
pub(crate) fn st_retained_full<'a>(_o: &Outbound<'a>) -> bool
where
    'a: 'a,
{
    unsafe { FULL }
}
pub(crate) fn st_can_retain<'a>(_o: &Outbound<'a>) -> bool
where
    'a: 'a,
{
    unsafe { CAN_RETAIN && !FULL }
}
pub(crate) fn st_scratch_len<'a>(_o: &Outbound<'a>) -> usize
where
    'a: 'a,
{
    unsafe { SCRATCH }
}
pub(crate) fn st_is_quiescent<'a>(_o: &Outbound<'a>) -> bool
where
    'a: 'a,
{
    unsafe { KIND == K_NONE && Q[0] == K_NONE }
}

pub(crate) fn st_retain_packet<'a>(_o: &mut Outbound<'a>, packet_id: u16, offset: usize, len: usize) -> Result<(), ProtocolError>
where
    'a: 'a,
{
    unsafe {
        log(E_RETAIN);
        if FULL {
            return Err(ProtocolError::InflightMetadataExhausted);
        }
        N_RETAIN += 1;
        LAST_RETAIN = (packet_id, offset, len);
        enqueue(K_RET, offset, len);
        Ok(())
    }
}

impl<'a> Outbound<'a> {
    /// stub for `encode_publish<P, E>` (own type parameters: must be an inherent method)
    pub(crate) fn kst_encode_publish<P: ToPayload, E>(&mut self, _header: &PublishHeader<'_>, _payload: P) -> Result<(usize, usize), PubError<P::Error, E>> {
        unsafe {
            N_ENCODE += 1;
            log(E_ENCODE);
            if ENC_FAIL {
                Err(PubError::Session(Error::Resource(ResourceError::BufferTooSmall)))
            } else {
                Ok((ENC_OFF, ENC_LEN))
            }
        }
    }
    /// stub for `encode_packet<T>`
    pub(crate) fn kst_encode_packet<T>(&mut self, _packet: &T) -> Result<(usize, usize), ProtocolError>
    where
        T: serde::Serialize + ControlPacket,
    {
        unsafe {
            N_ENCODE += 1;
            log(E_ENCODE);
            if ENC_FAIL {
                Err(ProtocolError::Encode(crate::ser::Error::InsufficientMemory))
            } else {
                Ok((ENC_OFF, ENC_LEN))
            }
        }
    }
}

// ---------------------------------------------------------------------------------------------
// ghost transport (records into the statics above so it can be inspected while borrowed)
// ---------------------------------------------------------------------------------------------
macro_rules! rec_bytes {
    ($buf:expr, $k:expr; $($i:literal)*) => {
        $( if $i < $k && IO_ACC_N + $i < 24 { IO_ACC[IO_ACC_N + $i] = $buf[$i]; } )*
    };
}

/// Record the first min(k, 24) accepted bytes (unrolled: no loop, no unwinding bound).
pub(crate) fn io_record_write(buf: &[u8], k: usize) {
    unsafe {
        rec_bytes!(buf, k; 0 1 2 3 4 5 6 7 8 9 10 11 12 13 14 15 16 17 18 19 20 21 22 23);
        IO_ACC_N += k;
    }
}

/// publishes that will be replayed on the next connection (stub for `unresolved_publishes`)
pub(crate) static mut UNRESOLVED: usize = 0;
pub(crate) fn st_unresolved_publishes<'a>(_o: &Outbound<'a>) -> usize
where
    'a: 'a,
{
    unsafe {
        if N_CLEAR > 0 {
            0
        } else {
            UNRESOLVED
        }
    }
}

// ---------------------------------------------------------------------------------------------
// Stub for the generic `write_packet<C, T>` (projection only makes it a plain fn, but the stub is
// harmless in the coroutine overlay where it is never referenced).  Used by the CONNACK-handling
// harnesses: records the fields of the CONNECT instead of encoding it (the encoder is L1's subject).
// ---------------------------------------------------------------------------------------------
pub(crate) static mut WP_CALLS: u8 = 0;
pub(crate) static mut WP_CLEAN_START: bool = false;
pub(crate) static mut WP_KEEPALIVE: u16 = 0;
pub(crate) static mut WP_CLIENT_ID0: u8 = 0;
pub(crate) static mut WP_CLIENT_ID_LEN: usize = 0;
pub(crate) static mut WP_FAIL: bool = false;

#[cfg(feature = "kani_projection")]
pub(crate) fn st_write_packet<C: Io, T>(_buffer: &mut [u8], _connection: &mut C, packet: &T) -> Result<(), Error<C::Error>>
where
    T: serde::Serialize + ControlPacket + core::fmt::Debug,
{
    unsafe {
        WP_CALLS += 1;
        log(E_IO_WRITE);
        // the only caller is connect_handshake with T = Connect
        assert!(core::mem::size_of::<T>() == core::mem::size_of::<crate::packets::Connect<'static>>());
        let c: &crate::packets::Connect<'_> = &*(packet as *const T as *const crate::packets::Connect<'_>);
        WP_CLEAN_START = c.clean_start;
        WP_KEEPALIVE = c.keepalive;
        WP_CLIENT_ID_LEN = c.client_id.0.len();
        WP_CLIENT_ID0 = if c.client_id.0.is_empty() { 0 } else { c.client_id.0.as_bytes()[0] };
        if WP_FAIL {
            IO_ERRS += 1;
            return Err(Error::WriteZero);
        }
        Ok(())
    }
}
