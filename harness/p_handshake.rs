//! NOT RUN (tier=dev): none of these finishes within 900 s - see DESIGN.md 4 (handshake).
//! L3p harnesses on session/handshake.rs (projection): Session::connect / connect_handshake with
//! the REAL CONNECT encoder, the real framer and the real CONNACK decoder; CONNACK bytes have a
//! concrete layout (one harness per property set) and symbolic values.
#![allow(static_mut_refs)]
use super::*;
use crate::mqtt_client::outbound::verif_x_outbound as g;
use crate::mqtt_client::outbound::Outbound;
use crate::mqtt_client::session::drive::verif_p_drive::{self as pd, SymIoP};
use crate::de::verif_x_de::reader_obs;
use crate::verif_common as vc;
use crate::{Buffers, ConfigBuilder, ResourceError};

macro_rules! hs_harness {
    ($name:ident, $unwind:literal, $body:block) => {
        #[kani::proof]
        #[kani::unwind($unwind)]
        #[kani::stub(embassy_time::Instant::now, crate::verif_common::stub_now)]
        #[kani::stub(crate::de::PacketReader::received_packet, crate::de::verif_x_de::reader_obs::st_received_packet)]
        #[kani::stub(crate::mqtt_client::outbound::write_packet, g::st_write_packet)]
        #[kani::stub(core::str::from_utf8, crate::verif_common::stub_from_utf8_unreached)]
        #[kani::stub(Outbound::arm_replay, g::st_arm_replay)]
        #[kani::stub(Outbound::clear, g::st_clear)]
        #[kani::stub(Outbound::unresolved_publishes, g::st_unresolved_publishes)]
        fn $name() $body
    };
}

/// variant 0: no properties; 1: ReceiveMaximum(v16); 2: MaximumPacketSize(v32) + ServerKeepAlive(v16);
/// 3: AssignedClientIdentifier("x") + MaximumQoS(v8).  The decoded packet is handed over by the
/// `received_packet` stub; the wire bytes only have to frame correctly (5 bytes, length 3).
fn set_connack(variant: u8, kind: u8, sp: bool, rc: u8, v8: u8, v16: u16, v32: u32) {
    unsafe {
        reader_obs::RP_KIND = kind;
        reader_obs::RP_SP = sp;
        reader_obs::RP_RC = rc;
        reader_obs::RP_CALLS = 0;
        match variant {
            0 => reader_obs::RP_NPROPS = 0,
            1 => {
                reader_obs::RP_PROPS = [Property::ReceiveMaximum(v16), Property::ReceiveMaximum(1)];
                reader_obs::RP_NPROPS = 1;
            }
            2 => {
                reader_obs::RP_PROPS = [Property::MaximumPacketSize(v32), Property::ServerKeepAlive(v16)];
                reader_obs::RP_NPROPS = 2;
            }
            _ => {
                reader_obs::RP_PROPS = [Property::AssignedClientIdentifier("x"), Property::MaximumQoS(v8)];
                reader_obs::RP_NPROPS = 2;
            }
        }
        pd::IN = [0x20, 3, 0, 0, 0, 0, 0, 0, 0, 0, 0, 0];
        pd::IN_LEN = 5;
    }
}

fn connect_body(variant: u8) {
    pd::reset_all();
    let mut rx = [0u8; 12];
    let mut tx = [0u8; 48];
    let ka: u16 = 60; // concrete: as_secs() divides 64-bit ticks (60 s of solver time); the field is c09_enc_connect_*'s subject
    let mut session = Session::new(ConfigBuilder::new(Buffers::new(&mut rx, &mut tx)).client_id("c").unwrap().keepalive_interval(ka).session_expiry_interval(kani::any()));
    // arbitrary leftovers of an earlier connection
    reader_obs::havoc(&mut session.packet_reader);
    session.runtime.next_ping = if kani::any() { Some(Instant::from_ticks(kani::any())) } else { None };
    session.runtime.ping_timeout = if kani::any() { Some(Instant::from_ticks(kani::any())) } else { None };
    session.runtime.send_quota = kani::any();
    let sp0: bool = kani::any();
    session.data.session_present = sp0;
    let gen0 = session.data.generation();
    unsafe {
        g::UNRESOLVED = kani::any();
        kani::assume(g::UNRESOLVED <= 8);
        pd::IO_HEALTHY = kani::any();
        pd::IO_WHOLE = true;
        g::WP_CALLS = 0;
        g::WP_FAIL = kani::any();
    }
    let spb: bool = kani::any();
    let sp: u8 = spb as u8;
    let rc: u8 = kani::any();
    kani::assume(rc == 0 || rc >= 0x80); // defined CONNACK reason codes: success or a failure code
    let v8: u8 = kani::any();
    let v16: u16 = kani::any();
    let v32: u32 = kani::any();
    let kind: u8 = kani::any();
    kani::assume(kind <= 3);
    set_connack(variant, kind, spb, rc, v8, v16, v32);
    let healthy = unsafe { pd::IO_HEALTHY };
    let res = session.connect(SymIoP);
    unsafe {
        // ---- C12 / C05: the CONNECT that was handed to the transport ---------------------------
        assert!(g::first(g::E_ARM) < g::first(g::E_IO_WRITE), "C12/C01: replay is not armed before the first byte of the new connection");
        assert!(g::WP_CALLS == 1, "C01: exactly one CONNECT per connection");
        assert!(g::WP_CLEAN_START == !sp0, "C05: clean start must be requested exactly until the first successful CONNACK");
        assert!(g::WP_KEEPALIVE == ka, "C09: CONNECT keep-alive");
        assert!(g::WP_CLIENT_ID_LEN == 1 && g::WP_CLIENT_ID0 == b'c', "C05: CONNECT carries the configured client identifier");
        match &res {
            Ok(conn) => {
                assert!(rc == 0 && kind == 0 && !g::WP_FAIL, "C05: connect() succeeded without a successful CONNACK");
                assert!(conn.live && healthy || conn.live, "C12: the new handle is live");
                let s = &conn.session;
                assert!(s.data.session_present, "C05: after a successful CONNACK the next CONNECT asks to resume");
                assert!(!s.packet_reader.packet_available() && reader_obs::read_bytes(&s.packet_reader) == 0, "C12: no partial inbound packet is carried over");
                assert!(s.runtime.ping_timeout.is_none(), "C10: no PINGREQ is outstanding on a new connection");
                match s.runtime.keepalive_send_interval() {
                    None => assert!(s.runtime.next_ping.is_none()),
                    Some(_) => assert!(s.runtime.next_ping.is_some(), "C10: the ping timer is armed from the CONNACK"),
                }
                if sp == 0 {
                    assert!(conn.event == ConnectEvent::Connected, "C05: no session on the broker => Connected");
                    assert!(g::N_CLEAR == 1, "C05: a fresh broker session must discard everything in flight");
                    assert!(s.data.generation() == gen0.wrapping_add(1), "C18: a fresh session invalidates earlier handles (generation + 1)");
                } else {
                    assert!(conn.event == ConnectEvent::Reconnected, "C05: session present => Reconnected");
                    assert!(g::N_CLEAR == 0 && s.data.generation() == gen0, "C05: a resumed session keeps in-flight state and handles");
                }
                // C06: counting invariant after CONNACK
                let unresolved = if sp == 1 { g::UNRESOLVED as u32 } else { 0 };
                let rm: u32 = if variant == 1 { v16 as u32 } else { 65_535 };
                assert!(s.runtime.max_send_quota as u32 == rm.min(8), "C06: the window is min(Receive Maximum, local limit)");
                if unresolved <= s.runtime.max_send_quota as u32 {
                    assert!(s.runtime.send_quota as u32 + unresolved <= s.runtime.max_send_quota as u32, "C06: quota + publishes to be replayed exceed the broker's Receive Maximum after a resumed CONNACK");
                    assert!(s.runtime.send_quota as u32 + unresolved == s.runtime.max_send_quota as u32, "C06: quota lost on CONNACK");
                } else {
                    assert!(s.runtime.send_quota == 0, "C06: more in flight than the new Receive Maximum => no new publish");
                }
                if variant == 1 {
                    assert!(v16 != 0, "C08: Receive Maximum 0 is a protocol error");
                }
                if variant == 2 {
                    assert!(s.runtime.maximum_packet_size == Some(v32), "C14: the broker's Maximum Packet Size is adopted");
                    assert!(s.runtime.keepalive_interval == embassy_time::Duration::from_secs(v16 as u64), "C10: Server Keep Alive overrides the configured keep-alive");
                } else {
                    assert!(s.runtime.keepalive_interval == embassy_time::Duration::from_secs(60), "C10: without Server Keep Alive the configured value stays");
                }
                if variant != 2 {
                    assert!(s.runtime.maximum_packet_size.is_none(), "C14: no limit without the property");
                }
                if variant == 3 {
                    assert!(s.client_id.as_str() == "x", "C05: the broker-assigned client identifier is adopted");
                    assert!(v8 <= 2 && s.runtime.max_qos.map(|q| q as u8) == Some(v8), "C19: Maximum QoS adopted");
                } else {
                    assert!(s.client_id.as_str() == "c" && s.runtime.max_qos.is_none());
                }
            }
            Err(e) => {
                match e {
                    Error::Peer(PeerError::Rejected(_)) => {
                        assert!(rc >= 0x80, "C05: Rejected without a failing reason code");
                    }
                    Error::Peer(PeerError::InvalidPacket) => {
                        assert!(kind >= 2 || (variant == 1 && v16 == 0) || (variant == 3 && v8 > 2), "C08: a valid CONNACK was treated as invalid");
                    }
                    Error::Transport(_) => assert!(!healthy && g::IO_ERRS >= 1),
                    Error::WriteZero => assert!(g::WP_FAIL),
                    Error::Disconnected => assert!(kind == 1 || pd::IN_EOF >= 1, "C11: Disconnected without broker DISCONNECT or end of stream"),
                    _ => assert!(false, "C12: unexpected connect() error"),
                }
            }
        }
    }
    // ---- outside the borrow of `res`: session state after a failed handshake --------------------
    if res.is_err() {
        drop(res);
        unsafe {
            if rc >= 0x80 || g::N_CLEAR == 0 {
                // session_present only changes through a processed CONNACK(sp = 0)
                assert!(session.data.session_present == sp0 || g::N_CLEAR == 1, "C05: a failed handshake changed the resume flag");
            }
        }
    }
}

// @harness props=C05,C12,C06,C01,C09,C14,C10,C18 tier=dev layer=L3p unwind=10
// @harness funcs="Session::connect, connect_handshake, fill_packet_reader, Properties::iter, SessionData::reset, RuntimeState::note_outbound_activity (projection); real framer; CONNECT fields recorded by a write_packet stub (encoder: c09_enc_connect_*), CONNACK handed over decoded (decoder: c08_dec_connack_*)"
// @harness sym="prior reader state, timers, resume flag, session expiry, publishes to replay (0..8), kind of the first inbound packet (CONNACK / DISCONNECT / other / undecodable), CONNACK session-present flag, reason code (0 or >= 0x80), transport faults at every call" bounds="CONNACK without properties (5 bytes); client id 1 byte; no will/auth; keep-alive 60 s; whole-buffer reads/writes (fragmentation: c13_write_all_contract, c15_read_packet_commits_and_latches)"
// @harness assumes="K5 (arm_replay), clear() as specified by c05_reset_clears_everything; PacketReader::received_packet replaced by a stub returning an arbitrary ConnAck / Disconnect / other packet / decode error"
hs_harness!(c05_connect_connack_plain, 6, { connect_body(0) });

// @harness props=C05,C06,C12 tier=dev layer=L3p unwind=10
// @harness funcs="as c05_connect_connack_plain"
// @harness sym="as plain + Receive Maximum value (all u16)" bounds="CONNACK with ReceiveMaximum (8 bytes)"
// @harness assumes="as c05_connect_connack_plain"
hs_harness!(c06_connect_connack_receive_maximum, 6, { connect_body(1) });

// @harness props=C05,C14,C12 tier=dev layer=L3p unwind=10
// @harness funcs="as c05_connect_connack_plain"
// @harness sym="as plain + Maximum Packet Size value (all u32)" bounds="CONNACK with MaximumPacketSize (10 bytes)"
// @harness assumes="as c05_connect_connack_plain"
hs_harness!(c14_connect_connack_max_packet_size, 6, { connect_body(2) });

// @harness props=C05,C19,C12 tier=dev layer=L3p unwind=10
// @harness funcs="as c05_connect_connack_plain"
// @harness sym="as plain + Maximum QoS value (all u8)" bounds="CONNACK with AssignedClientIdentifier(1 byte) + MaximumQoS (11 bytes)"
// @harness assumes="as c05_connect_connack_plain"
hs_harness!(c05_connect_connack_assigned_id, 6, { connect_body(3) });

// @harness props=C12,C01,C05,C14,C09 tier=dev layer=L3p unwind=10
// @harness funcs="Session::connect, connect_handshake, write_packet, write_all, MqttSerializer::encode(Connect), fill_packet_reader (projection): real CONNECT encoder, transport closes or fails right after CONNECT"
// @harness sym="prior reader state and timers, resume flag, session expiry, transport fault at every call, end of stream vs. error" bounds="client id 1 byte, no will/auth, keep-alive 60 s, 12-byte receive buffer, 48-byte arena; whole-buffer writes"
// @harness assumes="K5 (arm_replay)"
#[kani::proof]
#[kani::unwind(10)]
#[kani::stub(embassy_time::Instant::now, crate::verif_common::stub_now)]
#[kani::stub(Outbound::arm_replay, g::st_arm_replay)]
fn c12_connect_sends_connect_first() {
    pd::reset_all();
    let mut rx = [0u8; 12];
    let mut tx = [0u8; 48];
    let sei: u32 = kani::any();
    let mut session = Session::new(ConfigBuilder::new(Buffers::new(&mut rx, &mut tx)).client_id("c").unwrap().keepalive_interval(60).session_expiry_interval(sei));
    reader_obs::havoc(&mut session.packet_reader);
    session.runtime.next_ping = if kani::any() { Some(Instant::from_ticks(kani::any())) } else { None };
    session.runtime.ping_timeout = if kani::any() { Some(Instant::from_ticks(kani::any())) } else { None };
    let sp0: bool = kani::any();
    session.data.session_present = sp0;
    unsafe {
        pd::IO_WHOLE = true;
        pd::IN_LEN = 0; // the transport ends (EOF or error) after the CONNECT
    }
    let res = session.connect(SymIoP);
    assert!(res.is_err(), "C12: connect() cannot succeed without a CONNACK");
    drop(res);
    unsafe {
        assert!(g::first(g::E_ARM) < g::first(g::E_IO_WRITE), "C12/C01: replay is not armed before the first byte of the new connection");
        assert!(g::first(g::E_IO_READ) == usize::MAX || g::first(g::E_IO_WRITE) < g::first(g::E_IO_READ), "C01: CONNECT is written before anything is read");
        if g::IO_ERRS == 0 {
            // 10 18 00 04 M Q T T 05 flags 00 3c 0d 27 00 00 00 0c 11 <sei:4> 21 00 08 00 01 c
            assert!(g::IO_ACC_N == 26, "C09: CONNECT length");
            assert!(g::IO_ACC[0] == 0x10 && g::IO_ACC[1] == 24, "C01: the first bytes on a new transport are a complete CONNECT");
            assert!(g::IO_ACC[2] == 0 && g::IO_ACC[3] == 4 && g::IO_ACC[4] == b'M' && g::IO_ACC[5] == b'Q' && g::IO_ACC[6] == b'T' && g::IO_ACC[7] == b'T' && g::IO_ACC[8] == 5, "C09: protocol name and level");
            assert!(g::IO_ACC[9] == if sp0 { 0 } else { 2 }, "C05: clean start exactly until the first successful CONNACK; no will, no auth");
            assert!(g::IO_ACC[10] == 0 && g::IO_ACC[11] == 60, "C09: keep-alive");
            assert!(g::IO_ACC[12] == 13 && g::IO_ACC[13] == 0x27 && g::IO_ACC[14] == 0 && g::IO_ACC[15] == 0 && g::IO_ACC[16] == 0 && g::IO_ACC[17] == 12, "C14: CONNECT advertises the receive-buffer size (12) as Maximum Packet Size");
            assert!(g::IO_ACC[18] == 0x11 && g::IO_ACC[19] == (sei >> 24) as u8 && g::IO_ACC[22] == sei as u8, "C09: session expiry interval");
            assert!(g::IO_ACC[23] == 0x21, "C09: receive maximum follows");
            assert!(g::IO_FLUSH_OK == 1, "C01: CONNECT is flushed");
        }
        // C12: whatever happened, nothing of the failed attempt survives in the reader or the timers
        assert!(reader_obs::read_bytes(&session.packet_reader) == 0 && reader_obs::packet_length(&session.packet_reader).is_none(), "C12: a failed handshake leaves a partial inbound packet behind");
        assert!(session.runtime.next_ping.is_none() && session.runtime.ping_timeout.is_none(), "C12: a failed handshake leaves keep-alive timers armed");
        assert!(session.data.session_present == sp0, "C05: a failed handshake changed the resume flag");
    }
    kani::cover!(unsafe { g::IO_ERRS == 0 && pd::IN_EOF == 1 }, "CONNECT written, then end of stream");
}

// @harness props=DEV tier=dev layer=L3p
#[kani::proof]
#[kani::unwind(6)]
#[kani::stub(embassy_time::Instant::now, crate::verif_common::stub_now)]
#[kani::stub(Outbound::arm_replay, g::st_arm_replay)]
#[kani::stub(crate::mqtt_client::outbound::write_packet, g::st_write_packet)]
fn dev_connect_min() {
    pd::reset_all();
    let mut rx = [0u8; 12];
    let mut tx = [0u8; 48];
    let mut session = Session::new(ConfigBuilder::new(Buffers::new(&mut rx, &mut tx)).client_id("c").unwrap().keepalive_interval(60));
    unsafe {
        pd::IO_WHOLE = true;
        pd::IN_LEN = 0;
        g::WP_FAIL = false;
    }
    let res = session.connect(SymIoP);
    assert!(res.is_err());
}
