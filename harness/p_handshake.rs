//! L3p harnesses on session/handshake.rs (projection).  `Session::connect` as a whole does not finish
//! (every `?`/`match` on a niche-encoded Result is executed on both arms, so the decoder and the whole
//! CONNACK handling are explored even when the transport fails at once: > 900 s).  It is therefore
//! checked in two slices, using the two mechanical edits the projection makes in handshake.rs:
//!   HEAD  connect() up to and including the CONNECT write, ended by the cut point
//!         (`cut_after_connect`), with the REAL CONNECT encoder;
//!   TAIL  the handling of the first inbound packet: CONNECT recorded by a write_packet stub, framing
//!         and decoding replaced by stubs with arbitrary outcomes, CONNACK properties taken from a
//!         ghost slice (`stub_props_iter`).
#![allow(static_mut_refs)]
use super::*;
use crate::de::verif_x_de::reader_obs;
use crate::mqtt_client::outbound::verif_x_outbound as g;
use crate::mqtt_client::outbound::Outbound;
use crate::mqtt_client::session::drive::verif_p_drive::{self as pd, SymIoP};
use crate::verif_common as vc;
use crate::{Buffers, ConfigBuilder, ResourceError};

// @harness props=C12,C01,C05,C14,C09 quick_props=C12,C01,C05,C14 tier=quick layer=L3p
// @harness funcs="Session::connect, connect_handshake (head), write_packet, write_all, MqttSerializer::encode(Connect) (projection): real CONNECT encoder"
// @harness sym="prior reader state and timers (arbitrary leftovers), resume flag, session expiry, write/flush fault" bounds="client id 1 byte, no will/auth, keep-alive 60 s, 12-byte receive buffer, 48-byte arena; whole-buffer writes; function ended at the cut point after the CONNECT write"
// @harness assumes="K5 (arm_replay); projection cut point"
#[kani::proof]
#[kani::unwind(8)]
#[kani::stub(embassy_time::Instant::now, crate::verif_common::stub_now)]
#[kani::stub(Outbound::arm_replay, g::st_arm_replay)]
fn c12_connect_sends_connect_first() {
    pd::reset_all();
    let mut rx = [0u8; 12];
    let mut tx = [0u8; 48];
    let sei: u32 = kani::any();
    let mut session = Session::new(ConfigBuilder::new(Buffers::new(&mut rx, &mut tx)).client_id("c").unwrap().keepalive_interval(60).session_expiry_interval(sei));
    reader_obs::havoc(&mut session.packet_reader);
    session.runtime.next_ping = if kani::any() { Some(Instant::from_ticks(kani::any())) } else { None };
    session.runtime.ping_timeout = if kani::any() { Some(Instant::from_ticks(kani::any())) } else { None };
    session.runtime.session_resumed = kani::any();
    let sp0: bool = kani::any();
    session.data.session_present = sp0;
    unsafe {
        pd::IO_WHOLE = true;
        vc::CUT_AFTER_CONNECT = true;
    }
    let res = session.connect(SymIoP);
    assert!(res.is_err(), "harness: the cut point ends the handshake");
    drop(res);
    unsafe {
        vc::CUT_AFTER_CONNECT = false;
        assert!(g::N_ARM == 1 && g::first(g::E_ARM) < g::first(g::E_IO_WRITE), "C12/C01: replay is not armed before the first byte of the new connection");
        assert!(g::IO_READS == 0, "C01: CONNECT is written before anything is read");
        if g::IO_ERRS == 0 {
            // 10 1b | 00 04 M Q T T 05 flags 00 3c | 0d 27 00 00 00 0c 11 <sei:4> 21 00 08 | 00 01 c
            assert!(g::IO_ACC_N == 29, "C09: CONNECT length");
            assert!(g::IO_ACC[0] == 0x10 && g::IO_ACC[1] == 27, "C01: the first bytes on a new transport are a complete CONNECT");
            assert!(g::IO_ACC[2] == 0 && g::IO_ACC[3] == 4 && g::IO_ACC[4] == b'M' && g::IO_ACC[5] == b'Q' && g::IO_ACC[6] == b'T' && g::IO_ACC[7] == b'T' && g::IO_ACC[8] == 5, "C09: protocol name and level");
            assert!(g::IO_ACC[9] == if sp0 { 0 } else { 2 }, "C05: clean start is requested exactly until the first successful CONNACK (no will, no auth)");
            assert!(g::IO_ACC[10] == 0 && g::IO_ACC[11] == 60, "C09: keep-alive");
            assert!(g::IO_ACC[12] == 13 && g::IO_ACC[13] == 0x27 && g::IO_ACC[14] == 0 && g::IO_ACC[15] == 0 && g::IO_ACC[16] == 0 && g::IO_ACC[17] == 12, "C14: CONNECT advertises the receive-buffer size (12) as Maximum Packet Size");
            assert!(g::IO_ACC[18] == 0x11 && g::IO_ACC[19] == (sei >> 24) as u8 && g::IO_ACC[20] == (sei >> 16) as u8 && g::IO_ACC[21] == (sei >> 8) as u8 && g::IO_ACC[22] == sei as u8, "C09: session expiry interval");
            assert!(g::IO_ACC[23] == 0x21, "C09: receive maximum follows");
            assert!(g::IO_FLUSH_OK == 1 && g::IO_WRITES == 1, "C01: exactly one CONNECT, flushed");
        }
        // C12: what an earlier connection left behind is gone before the first byte
        assert!(reader_obs::read_bytes(&session.packet_reader) == 0 && reader_obs::packet_length(&session.packet_reader).is_none(), "C12: a partial inbound packet of an earlier connection is carried over");
        assert!(!session.runtime.session_resumed, "C12: transport state of the earlier connection survives");
        assert!(session.data.session_present == sp0, "C05: writing CONNECT changed the resume flag");
    }
    kani::cover!(unsafe { g::IO_ERRS == 0 }, "CONNECT written and flushed");
    kani::cover!(unsafe { g::IO_ERRS == 1 }, "transport fault while writing CONNECT");
}

macro_rules! hs_harness {
    ($name:ident, $unwind:literal, $body:block) => {
        #[kani::proof]
        #[kani::unwind($unwind)]
        #[kani::stub(embassy_time::Instant::now, crate::verif_common::stub_now)]
        #[kani::stub(crate::de::PacketReader::received_packet, crate::de::verif_x_de::reader_obs::st_received_packet)]
        #[kani::stub(crate::mqtt_client::outbound::write_packet, g::st_write_packet)]
        #[kani::stub(crate::mqtt_client::session::drive::fill_packet_reader, pd::st_fill_packet_reader)]
        #[kani::stub(Outbound::arm_replay, g::st_arm_replay)]
        #[kani::stub(Outbound::clear, g::st_clear)]
        #[kani::stub(Outbound::unresolved_publishes, g::st_unresolved_publishes)]
        fn $name() $body
    };
}

/// variant 0: no properties; 1: ReceiveMaximum(v16); 2: MaximumPacketSize(v32) + ServerKeepAlive(v16);
/// 3: AssignedClientIdentifier("x") + MaximumQoS(v8)
fn set_connack(variant: u8, kind: u8, sp: bool, rc: u8, v8: u8, v16: u16, v32: u32) {
    unsafe {
        reader_obs::RP_KIND = kind;
        reader_obs::RP_SP = sp;
        reader_obs::RP_RC = rc;
        reader_obs::RP_NPROPS = 0; // the packet's own (lazy) property block is not used: see stub_props_iter
        match variant {
            0 => vc::CK_NPROPS = 0,
            1 => {
                vc::CK_PROPS = [Property::ReceiveMaximum(v16), Property::ReceiveMaximum(1)];
                vc::CK_NPROPS = 1;
            }
            2 => {
                vc::CK_PROPS = [Property::MaximumPacketSize(v32), Property::ServerKeepAlive(v16)];
                vc::CK_NPROPS = 2;
            }
            _ => {
                vc::CK_PROPS = [Property::AssignedClientIdentifier("x"), Property::MaximumQoS(v8)];
                vc::CK_NPROPS = 2;
            }
        }
    }
}

fn connack_body(variant: u8) {
    pd::reset_all();
    let mut rx = [0u8; 12];
    let mut tx = [0u8; 48];
    let ka: u16 = 60; // concrete: as_secs() divides 64-bit ticks; the CONNECT field is c09_enc_connect_*'s subject
    let mut session = Session::new(ConfigBuilder::new(Buffers::new(&mut rx, &mut tx)).client_id("c").unwrap().keepalive_interval(ka));
    session.runtime.send_quota = kani::any();
    session.runtime.max_send_quota = kani::any();
    let sp0: bool = kani::any();
    session.data.session_present = sp0;
    let gen0 = session.data.generation();
    let spb: bool = kani::any();
    let rc: u8 = kani::any();
    kani::assume(rc == 0 || rc >= 0x80); // defined CONNACK reason codes: success or a failure code
    let v8: u8 = kani::any();
    let v16: u16 = kani::any();
    let v32: u32 = kani::any();
    let kind: u8 = kani::any();
    kani::assume(kind <= 3);
    set_connack(variant, kind, spb, rc, v8, v16, v32);
    unsafe {
        g::UNRESOLVED = kani::any();
        kani::assume(g::UNRESOLVED <= 8);
        g::WP_CALLS = 0;
        g::WP_FAIL = kani::any();
        pd::FILL_OUTCOME = kani::any();
        kani::assume(pd::FILL_OUTCOME <= 2);
        pd::FILL_CALLS = 0;
    }
    let res = session.connect(SymIoP);
    unsafe {
        assert!(g::WP_CALLS == 1, "C01: exactly one CONNECT per connection");
        assert!(g::WP_CLEAN_START == !sp0, "C05: clean start must be requested exactly until the first successful CONNACK");
        assert!(g::WP_KEEPALIVE == ka, "C09: CONNECT keep-alive");
        assert!(g::WP_CLIENT_ID_LEN == 1 && g::WP_CLIENT_ID0 == b'c', "C05: CONNECT carries the configured client identifier");
        let got_connack = !g::WP_FAIL && pd::FILL_OUTCOME == 0 && kind == 0;
        match &res {
            Ok(conn) => {
                assert!(got_connack && rc == 0, "C05: connect() succeeded without a successful CONNACK");
                assert!(conn.live, "C12: the new handle is live");
                let s = &conn.session;
                assert!(s.data.session_present, "C05: after a successful CONNACK the next CONNECT asks to resume");
                assert!(s.runtime.ping_timeout.is_none(), "C10: no PINGREQ is outstanding on a new connection");
                match s.runtime.keepalive_send_interval() {
                    None => assert!(s.runtime.next_ping.is_none(), "C10: keep-alive 0 (after server override) arms no ping"),
                    // the clock stub was last read when the timers were restarted
                    Some(iv) => assert!(s.runtime.next_ping == Some(Instant::from_ticks(vc::NOW) + iv), "C10: the first ping deadline of a connection is CONNACK time + interval of the EFFECTIVE keep-alive (Server Keep Alive if present)"),
                }
                if !spb {
                    assert!(conn.event == ConnectEvent::Connected, "C05: no session on the broker => Connected");
                    assert!(g::N_CLEAR == 1, "C05: a fresh broker session must discard everything in flight");
                    assert!(s.data.generation() == gen0.wrapping_add(1), "C18: a fresh session invalidates earlier handles (generation + 1)");
                } else {
                    assert!(conn.event == ConnectEvent::Reconnected, "C05: session present => Reconnected");
                    assert!(g::N_CLEAR == 0 && s.data.generation() == gen0, "C05: a resumed session keeps in-flight state and handles");
                }
                assert!(s.runtime.session_resumed == spb);
                // C06: counting invariant after CONNACK
                let unresolved = if spb { g::UNRESOLVED as u32 } else { 0 };
                let rm: u32 = if variant == 1 { v16 as u32 } else { 65_535 };
                assert!(s.runtime.max_send_quota as u32 == rm.min(8), "C06: the window is min(Receive Maximum, local limit)");
                if unresolved <= s.runtime.max_send_quota as u32 {
                    assert!(s.runtime.send_quota as u32 + unresolved <= s.runtime.max_send_quota as u32, "C06: quota + publishes to be replayed exceed the broker's Receive Maximum after a resumed CONNACK");
                    assert!(s.runtime.send_quota as u32 + unresolved == s.runtime.max_send_quota as u32, "C06: quota lost on CONNACK");
                } else {
                    assert!(s.runtime.send_quota == 0, "C06: more in flight than the new Receive Maximum => no new publish");
                }
                if variant == 1 {
                    assert!(v16 != 0, "C08: Receive Maximum 0 is a protocol error");
                }
                if variant == 2 {
                    assert!(s.runtime.maximum_packet_size == Some(v32), "C14: the broker's Maximum Packet Size is adopted");
                    assert!(s.runtime.keepalive_interval == embassy_time::Duration::from_secs(v16 as u64), "C10: Server Keep Alive overrides the configured keep-alive");
                } else {
                    assert!(s.runtime.maximum_packet_size.is_none(), "C14: no limit without the property");
                    assert!(s.runtime.keepalive_interval == embassy_time::Duration::from_secs(60), "C10: without Server Keep Alive the configured value stays");
                }
                if variant == 3 {
                    assert!(s.client_id.as_str() == "x", "C05: the broker-assigned client identifier is adopted");
                    assert!(v8 <= 2 && s.runtime.max_qos.map(|q| q as u8) == Some(v8), "C19: Maximum QoS adopted");
                } else {
                    assert!(s.client_id.as_str() == "c" && s.runtime.max_qos.is_none());
                }
            }
            Err(e) => match e {
                Error::Peer(PeerError::Rejected(_)) => assert!(got_connack && rc >= 0x80, "C05: Rejected without a failing CONNACK"),
                Error::Peer(PeerError::InvalidPacket) => {
                    assert!(pd::FILL_OUTCOME == 2 || kind >= 2 || (got_connack && ((variant == 1 && v16 == 0) || (variant == 3 && v8 > 2))), "C08: a valid CONNACK was treated as invalid")
                }
                Error::Disconnected => assert!(pd::FILL_OUTCOME == 1 || kind == 1, "C11: Disconnected without broker DISCONNECT or end of stream"),
                Error::WriteZero => assert!(g::WP_FAIL),
                _ => assert!(false, "C12: unexpected connect() error"),
            },
        }
    }
    // ---- session state after a failed handshake -------------------------------------------------
    if res.is_err() {
        drop(res);
        unsafe {
            let reset_done = g::N_CLEAR == 1;
            assert!(session.data.session_present == (sp0 && !reset_done), "C05: after a failed handshake the resume flag must be unchanged, or cleared if a CONNACK reporting no session was processed - never set (clean start is dropped only by a SUCCESSFUL handshake)");
            assert!(!reset_done || (!g::WP_FAIL && pd::FILL_OUTCOME == 0 && kind == 0 && rc == 0 && !spb), "C05: local state was discarded without a successful CONNACK reporting no session");
            assert!(reader_obs::read_bytes(&session.packet_reader) == 0 || g::WP_FAIL, "C12: a failed handshake leaves a partial inbound packet behind");
            // a successful CONNACK reporting no session means the broker HAS replaced the session,
            // whether or not the client then refuses the CONNACK for one of its properties
            let fresh_announced = !g::WP_FAIL && pd::FILL_OUTCOME == 0 && kind == 0 && rc == 0 && !spb;
            assert!(!fresh_announced || (reset_done && session.data.generation() == gen0.wrapping_add(1)), "C18/C05: a successful CONNACK reporting no session was refused for its properties without invalidating the handles and dropping the in-flight state of the replaced session");
            kani::cover!(!(variant == 1 || variant == 3) || fresh_announced);
        }
    }
    kani::cover!(unsafe { g::N_CLEAR == 1 });
}

// @harness props=C05,C12,C06,C18,C10 tier=quick layer=L3p unwind=6
// @harness funcs="Session::connect, connect_handshake (tail: first inbound packet, reason code, session-present handling, quota, timers), SessionData::reset, mark_session_present, RuntimeState::note_outbound_activity (projection)"
// @harness sym="resume flag, prior quota, publishes to replay (0..8), outcome of CONNECT write / framing / decoding, kind of the first inbound packet (CONNACK / DISCONNECT / other / undecodable), session-present flag, reason code (0 or >= 0x80)" bounds="CONNACK without properties; client id 1 byte; keep-alive 60 s"
// @harness assumes="write_packet, fill_packet_reader, PacketReader::received_packet replaced by stubs with arbitrary outcomes (their subjects: c09_enc_connect_*, c15_read_packet_*, c08_dec_connack_*); CONNACK properties from the ghost slice (projection rule); K5; clear() as c05_reset_clears_everything"
hs_harness!(c05_connack_plain, 6, { connack_body(0) });

// @harness props=C06,C05,C08,C18 tier=quick layer=L3p unwind=6
// @harness funcs="as c05_connack_plain + Receive Maximum handling"
// @harness sym="as plain + Receive Maximum value (all u16)" bounds="CONNACK with ReceiveMaximum"
// @harness assumes="as c05_connack_plain"
hs_harness!(c06_connack_receive_maximum, 6, { connack_body(1) });

// @harness props=C14,C10,C05 tier=quick layer=L3p unwind=6
// @harness funcs="as c05_connack_plain + Maximum Packet Size and Server Keep Alive handling"
// @harness sym="as plain + Maximum Packet Size (all u32), Server Keep Alive (all u16)" bounds="CONNACK with MaximumPacketSize + ServerKeepAlive"
// @harness assumes="as c05_connack_plain"
hs_harness!(c14_connack_max_packet_size_keepalive, 6, { connack_body(2) });

// @harness props=C05,C19 tier=quick layer=L3p unwind=6
// @harness funcs="as c05_connack_plain + Assigned Client Identifier and Maximum QoS handling"
// @harness sym="as plain + Maximum QoS value (all u8)" bounds="CONNACK with AssignedClientIdentifier(1 byte) + MaximumQoS"
// @harness assumes="as c05_connack_plain"
hs_harness!(c05_connack_assigned_id_max_qos, 6, { connack_body(3) });
