//! Stub for `Properties::valid_for` used by the L3p operation harnesses: validity is decided by
//! c19_validity_table / c19_valid_for_*; here it is an arbitrary answer recorded in the ghost.
use super::*;

pub(crate) static mut VALID: bool = true;
pub(crate) static mut N_VALID_CALLS: u8 = 0;

impl<'a> Properties<'a> {
    pub(crate) fn kst_valid_for(&'a self, _context: PropertyContext) -> bool {
        unsafe {
            N_VALID_CALLS += 1;
            VALID
        }
    }
}
