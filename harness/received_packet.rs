//! L1 harnesses on de/received_packet.rs: the inbound decoder on symbolic bytes (C08, C04).
//! `dec_body(first_byte, len)` is instantiated per (first byte, length) by the generated wrappers in
//! received_packet__gen.rs.  Oracle: the reference checker `check_server_packet` of verif_common.
use super::*;
use crate::properties::Properties;
use crate::reason_codes::ReasonCode;
use crate::verif_common::{check_server_packet, ServerParsed};
use crate::{Error, PeerError};

fn bytes_eq(a: &[u8], b: &[u8]) -> bool {
    if a.len() != b.len() {
        return false;
    }
    let mut i = 0;
    while i < a.len() {
        if a[i] != b[i] {
            return false;
        }
        i += 1;
    }
    true
}

fn props_eq(p: &Properties<'_>, b: &[u8], r: &ServerParsed) -> bool {
    let want: &[u8] = if r.has_props { &b[r.props.0..r.props.0 + r.props.1] } else { &[] };
    *p == Properties::encoded(want)
}

fn fields_match(pkt: &ReceivedPacket<'_>, b: &[u8], r: &ServerParsed) -> bool {
    let reason = if r.has_reason { ReasonCode::from(r.reason) } else { ReasonCode::Success };
    match pkt {
        ReceivedPacket::ConnAck(a) => r.typ == 2 && a.session_present == r.session_present && a.reason_code == reason && props_eq(&a.properties, b, r),
        ReceivedPacket::Publish(p) => {
            r.typ == 3
                && bytes_eq(p.topic.0.as_bytes(), &b[r.topic.0..r.topic.0 + r.topic.1])
                && p.packet_id == if r.has_id { Some(r.packet_id) } else { None }
                && p.qos as u8 == (r.flags >> 1) & 3
                && (p.retain == Retain::Retained) == (r.flags & 1 != 0)
                && p.dup == (r.flags & 8 != 0)
                && props_eq(&p.properties, b, r)
                && bytes_eq(p.payload, &b[r.rest.0..r.rest.0 + r.rest.1])
        }
        ReceivedPacket::PubAck(a) => r.typ == 4 && a.packet_id == r.packet_id && a.reason.code() == reason,
        ReceivedPacket::PubRec(a) => r.typ == 5 && a.packet_id == r.packet_id && a.reason.code() == reason,
        ReceivedPacket::PubRel(a) => r.typ == 6 && a.packet_id == r.packet_id && a.reason.code() == reason,
        ReceivedPacket::PubComp(a) => r.typ == 7 && a.packet_id == r.packet_id && a.reason.code() == reason,
        ReceivedPacket::SubAck(a) => r.typ == 9 && a.packet_id == r.packet_id && bytes_eq(a.codes, &b[r.rest.0..r.rest.0 + r.rest.1]),
        ReceivedPacket::UnsubAck(a) => r.typ == 11 && a.packet_id == r.packet_id && bytes_eq(a.codes, &b[r.rest.0..r.rest.0 + r.rest.1]),
        ReceivedPacket::PingResp => r.typ == 13,
        ReceivedPacket::Disconnect(d) => r.typ == 14 && d.reason_code() == reason && (d.properties().is_some() == r.has_props) && match d.properties() {
            Some(p) => props_eq(p, b, r),
            None => true,
        },
    }
}

pub(crate) fn dec_body(b0: u8, len: usize) {
    let mut buf: [u8; 12] = kani::any();
    buf[0] = b0;
    buf[1] = (len - 2) as u8;
    let b = &buf[..len];
    let lenient = check_server_packet(b, false, 2);
    let r = ReceivedPacket::from_buffer(b);
    match r {
        Ok(pkt) => {
            assert!(lenient.ok, "C08/reject: a malformed packet (reserved or client-only type, illegal flags, QoS 3, field past the end, trailing bytes, invalid UTF-8 topic) was accepted");
            assert!(fields_match(&pkt, b, &lenient), "C08/accept: a packet was accepted with field values other than those sent");
        }
        Err(e) => {
            assert!(!lenient.ok, "C08/accept: a structurally valid packet that a broker may send was rejected");
            let pe: Error<()> = Error::from(e);
            assert!(matches!(pe, Error::Peer(PeerError::InvalidPacket)), "C08/reject: malformed input is reported as the invalid-packet error");
        }
    }
}

// @harness props=C08 tier=quick layer=L1
// @harness funcs="ReceivedPacket::from_buffer, read_mqtt_u32_varint (remaining length)"
// @harness sym="low 7 bits of the first length byte, all later bytes; first byte 0x40" bounds="two-byte remaining-length encodings of a small value (non-canonical) and over-long 5-byte encodings"
// @harness assumes="core::str::from_utf8 replaced by utf8_ok"
#[kani::proof]
#[kani::unwind(8)]
#[kani::stub(core::str::from_utf8, crate::verif_common::stub_from_utf8)]
fn c08_dec_noncanonical_remaining_length() {
    let mut buf: [u8; 8] = kani::any();
    buf[0] = 0x40; // PUBACK (the fixed-header decoding is the same code for every type)
    // 0x80|x 0x00 : value x < 128 encoded in two bytes => non-canonical
    kani::assume(buf[1] & 0x80 != 0 && buf[2] == 0);
    let r = ReceivedPacket::from_buffer(&buf[..6]);
    assert!(r.is_err(), "C08/reject: a non-canonical remaining length was accepted");
    // five length bytes
    buf[2] = 0x80;
    kani::assume(buf[3] & 0x80 != 0 && buf[4] & 0x80 != 0);
    let r = ReceivedPacket::from_buffer(&buf[..8]);
    assert!(r.is_err(), "C08/reject: an over-long remaining length was accepted");
}
