//! L2 harnesses on the real `SessionData::handle_packet` (inbound.rs): acknowledgement handling
//! (C02, C03, C06, C18), inbound publishes (C04), keep-alive and fatal packets (C10, C11).
//! Inbound packets are built as `ReceivedPacket` values (no decode cost; decoding is C08's subject).
use super::*;
use crate::mqtt_client::outbound::verif_outbound::{peek_control, peek_release};
use crate::mqtt_client::outbound::{ControlAction, OutboundStep};
use crate::packets::{ConnAck, Disconnect, PubAck, PubComp, PubRec, PubRel, Publish, SubAck, UnsubAck};
use crate::properties::Properties;
use crate::wire::Utf8String;
use crate::Retain;
use embassy_time::{Duration, Instant};

/// retained: id 3 (QoS 1 PUBLISH, 4 bytes @0), id 4 (QoS 2 PUBLISH, 5 bytes @4), id 5 (SUBSCRIBE, 3 bytes @9)
/// release:  id 9
/// quota/limits symbolic, satisfying the counting invariant of C06.
fn setup<'a>(tx: &'a mut [u8; 16]) -> (SessionData<'a>, RuntimeState) {
    tx[0] = 0x32;
    tx[4] = 0x34;
    tx[9] = 0x82;
    let mut data = SessionData::new(tx);
    let mut rt = RuntimeState::new(Duration::from_secs(60));
    rt.max_send_quota = kani::any();
    rt.send_quota = kani::any();
    kani::assume(rt.max_send_quota >= 1 && rt.max_send_quota <= 8);
    data.outbound.retain_packet(3, 0, 4).unwrap();
    data.outbound.retain_packet(4, 4, 5).unwrap();
    data.outbound.retain_packet(5, 9, 3).unwrap();
    data.outbound.queue_release(9, ReasonCode::Success).unwrap();
    rt.maximum_packet_size = if kani::any() { Some(kani::any()) } else { None };
    (data, rt)
}

/// Unresolved QoS 1/2 publishes: retained entries whose packet is a PUBLISH + exchanges awaiting PUBCOMP.
fn unresolved(data: &SessionData<'_>) -> u16 {
    let mut n = 0u16;
    for id in [3u16, 4, 5] {
        if id != 5 && data.outbound.has_retained(id) {
            n += 1;
        }
    }
    n + data.outbound.pending_release_len() as u16
}

fn inv(data: &SessionData<'_>, rt: &RuntimeState) -> bool {
    rt.send_quota as u32 + unresolved(data) as u32 <= rt.max_send_quota as u32
}

fn any_code() -> (u8, ReasonCode) {
    let c: u8 = kani::any();
    (c, ReasonCode::from(c))
}

/// MQTT 5 reason codes below 0x80 that are defined (success family). Values below 0x80 that MQTT
/// does not define are outside the claim (the crate maps them to `Unknown` = failure).
fn known_success(c: u8) -> bool {
    matches!(c, 0x00 | 0x01 | 0x02 | 0x04 | 0x10 | 0x11 | 0x18 | 0x19)
}

fn rejected(r: &Result<bool, Error<core::convert::Infallible>>) -> bool {
    matches!(r, Err(Error::Peer(PeerError::Rejected(_))))
}

// @harness props=C02,C06,C18 tier=quick layer=L2
// @harness funcs="SessionData::handle_packet (PubAck), Outbound::ack_packet, compact"
// @harness sym="reason code (all 256), send quota, max quota (1..8), maximum packet size, arena bytes" bounds="3 retained (QoS1 id 3, QoS2 id 4, SUBSCRIBE id 5) + 1 release (id 9); PUBACK for id 3"
#[kani::proof]
#[kani::unwind(6)]
fn c02_hp_puback_match() {
    let mut tx: [u8; 16] = kani::any();
    let (mut data, mut rt) = setup(&mut tx);
    kani::assume(inv(&data, &rt));
    let q0 = rt.send_quota;
    let (c, code) = any_code();
    let r = data.handle_packet(&mut rt, ReceivedPacket::PubAck(PubAck { packet_id: 3, reason: code.into() }));
    assert!(!data.outbound.has_retained(3), "C02: PUBACK removes the acknowledged message");
    assert!(data.outbound.has_retained(4) && data.outbound.has_retained(5) && data.outbound.has_pending_release(9), "C02: a PUBACK removes only its own message");
    assert!(rt.send_quota == q0 + 1, "C06: a PUBACK returns exactly one quota slot");
    assert!(inv(&data, &rt), "C06/inv: quota + unresolved <= Receive Maximum after PUBACK");
    if known_success(c) {
        assert!(matches!(r, Ok(false)), "C18: successful PUBACK is internal progress");
    } else if c >= 0x80 {
        assert!(rejected(&r), "C18: a failing PUBACK reason is surfaced as Rejected (after the entry is removed)");
    }
    kani::cover!(c >= 0x80);
    kani::cover!(known_success(c) && q0 > 0);
}

// @harness props=C02,C06 tier=quick layer=L2
// @harness funcs="SessionData::handle_packet (PubAck stale / other id)"
// @harness sym="reason code, quota; packet id 9 (awaiting PUBCOMP) or 100 (unknown)" bounds="same shape"
// @harness assumes="conformant broker: a PUBACK never carries the id of a SUBSCRIBE in flight (ids are pairwise distinct, C07)"
#[kani::proof]
#[kani::unwind(6)]
fn c02_hp_puback_nomatch() {
    puback_nomatch_body(9);
    puback_nomatch_body(100);
}

fn puback_nomatch_body(id: u16) {
    let mut tx: [u8; 16] = kani::any();
    let (mut data, mut rt) = setup(&mut tx);
    let q0 = rt.send_quota;
    // concrete non-matching ids: a symbolic id makes Vec::remove's index symbolic on an
    // infeasible path and the harness does not finish (300 s)
    let (_, code) = any_code();
    let r = data.handle_packet(&mut rt, ReceivedPacket::PubAck(PubAck { packet_id: id, reason: code.into() }));
    assert!(matches!(r, Ok(false)), "C02: a stale PUBACK is ignored");
    assert!(data.outbound.has_retained(3) && data.outbound.has_retained(4) && data.outbound.has_retained(5), "C02: a stale PUBACK removes nothing");
    assert!(data.outbound.has_pending_release(9) && rt.send_quota == q0, "C06: a stale PUBACK returns no quota");
}

// @harness props=C03,C06,C18 tier=quick layer=L2
// @harness funcs="SessionData::handle_packet (PubRec), Outbound::ack_packet, queue_release, check_pubrel_size"
// @harness sym="reason code (all 256), quota, max quota, maximum packet size, arena bytes" bounds="same shape; PUBREC for the QoS 2 message id 4"
#[kani::proof]
#[kani::unwind(8)]
fn c03_hp_pubrec_match() {
    let mut tx: [u8; 16] = kani::any();
    let (mut data, mut rt) = setup(&mut tx);
    kani::assume(inv(&data, &rt));
    kani::assume(rt.maximum_packet_size.map_or(true, |m| m >= 5)); // PUBREL fits (else: c14_hp_ack_too_large)
    let (c, code) = any_code();
    let r = data.handle_packet(&mut rt, ReceivedPacket::PubRec(PubRec { packet_id: 4, reason: code.into() }));
    assert!(!data.outbound.has_retained(4), "C03: after PUBREC the PUBLISH is never sent again");
    assert!(data.outbound.has_retained(3) && data.outbound.has_retained(5) && data.outbound.has_pending_release(9), "C03: a PUBREC touches only its own exchange");
    kani::assume(known_success(c) || c >= 0x80);
    if c < 0x80 {
        assert!(matches!(r, Ok(false)), "C03: successful PUBREC is internal progress");
        assert!(data.outbound.has_pending_release(4), "C03: a successful PUBREC queues the PUBREL");
        assert!(data.outbound.pending_release_len() == 2, "C06: no QoS 2 exchange is dropped");
        // appended last => replayed after the earlier one
        assert!(peek_release(&data.outbound, 0) == Some(9) && peek_release(&data.outbound, 1) == Some(4), "C03: the new PUBREL is queued behind the earlier one, with the PUBREC's identifier");
    } else {
        assert!(rejected(&r), "C18: a failing PUBREC is surfaced as Rejected");
        assert!(!data.outbound.has_pending_release(4), "C03: a failing PUBREC ends the exchange without PUBREL");
    }
    assert!(inv(&data, &rt), "C06/inv: quota + unresolved <= Receive Maximum after PUBREC (a message awaiting PUBCOMP is still unresolved)");
    kani::cover!(c >= 0x80);
    kani::cover!(c < 0x80);
}

// @harness props=C03,C06 tier=quick layer=L2
// @harness funcs="SessionData::handle_packet (PubRec stale)"
// @harness sym="reason code (all 256), quota; packet id 9 (already awaiting PUBCOMP) or 100 (unknown)" bounds="same shape"
#[kani::proof]
#[kani::unwind(6)]
fn c03_hp_pubrec_stale() {
    pubrec_stale_body(9);
    pubrec_stale_body(100);
}

fn pubrec_stale_body(id: u16) {
    let mut tx: [u8; 16] = kani::any();
    let (mut data, mut rt) = setup(&mut tx);
    kani::assume(inv(&data, &rt));
    let q0 = rt.send_quota;
    // a stale / duplicate PUBREC may carry any reason code, failing ones included
    let (c, code) = any_code();
    let r = data.handle_packet(&mut rt, ReceivedPacket::PubRec(PubRec { packet_id: id, reason: code.into() }));
    if known_success(c) || id == 100 {
        assert!(matches!(r, Ok(false)), "C03: stale PUBREC is internal");
    }
    assert!(data.outbound.has_retained(3) && data.outbound.has_retained(4) && data.outbound.has_retained(5), "C03: stale PUBREC removes nothing");
    assert!(data.outbound.pending_release_len() == 1 && data.outbound.has_pending_release(9), "C03: stale PUBREC queues no second PUBREL and ends no exchange");
    assert!(rt.send_quota == q0, "C06: a stale PUBREC (whatever its reason code) returns no quota: the exchange it names is still unresolved or unknown");
    assert!(inv(&data, &rt), "C06/inv after a stale PUBREC");
    kani::cover!(c >= 0x80);
}

// @harness props=C03,C06,C18 tier=quick layer=L2
// @harness funcs="SessionData::handle_packet (PubComp), Outbound::ack_release"
// @harness sym="reason code, quota, max quota" bounds="same shape; PUBCOMP for id 9"
#[kani::proof]
#[kani::unwind(6)]
fn c03_hp_pubcomp_match() {
    let mut tx: [u8; 16] = kani::any();
    let (mut data, mut rt) = setup(&mut tx);
    kani::assume(inv(&data, &rt));
    let q0 = rt.send_quota;
    let (c, code) = any_code();
    let r = data.handle_packet(&mut rt, ReceivedPacket::PubComp(PubComp { packet_id: 9, reason: code.into() }));
    assert!(!data.outbound.has_pending_release(9) && data.outbound.pending_release_len() == 0, "C03: PUBCOMP ends the exchange");
    assert!(data.outbound.has_retained(3) && data.outbound.has_retained(4) && data.outbound.has_retained(5), "C03: PUBCOMP touches nothing else");
    assert!(inv(&data, &rt), "C06/inv after PUBCOMP");
    assert!(rt.send_quota == q0 + 1, "C06: PUBCOMP returns the quota slot of its exchange");
    if known_success(c) {
        assert!(matches!(r, Ok(false)));
    } else if c >= 0x80 {
        assert!(rejected(&r), "C18: failing PUBCOMP surfaced");
    }
    kani::cover!(c >= 0x80);
}

// @harness props=C03,C02 tier=quick layer=L2
// @harness funcs="SessionData::handle_packet (PubComp stale, PingResp, PubRel)"
// @harness sym="packet id, quota, timers" bounds="same shape"
#[kani::proof]
#[kani::unwind(6)]
fn c03_hp_unrelated_packets_change_nothing() {
    unrelated_body(3, 0);
    unrelated_body(100, 0);
    unrelated_body(0, 1);
    unrelated_body(3, 2);
}

fn unrelated_body(id: u16, which: u8) {
    let mut tx: [u8; 16] = kani::any();
    let (mut data, mut rt) = setup(&mut tx);
    kani::assume(rt.maximum_packet_size.is_none());
    let q0 = rt.send_quota;
    let r = match which % 3 {
        0 => {
            data.handle_packet(&mut rt, ReceivedPacket::PubComp(PubComp { packet_id: id, reason: ReasonCode::Success.into() }))
        }
        1 => data.handle_packet(&mut rt, ReceivedPacket::PingResp),
        _ => data.handle_packet(&mut rt, ReceivedPacket::PubRel(PubRel { packet_id: id, reason: ReasonCode::Success.into() })),
    };
    assert!(matches!(r, Ok(false)));
    assert!(data.outbound.has_retained(3) && data.outbound.has_retained(4) && data.outbound.has_retained(5), "C02: only the final acknowledgement removes a message");
    assert!(data.outbound.has_pending_release(9) && data.outbound.pending_release_len() == 1, "C03: only PUBCOMP ends an exchange");
    assert!(rt.send_quota == q0, "C06: unrelated packets return no quota");
}

// @harness props=C18,C02 tier=quick layer=L2
// @harness funcs="SessionData::handle_packet (SubAck / UnsubAck), ReasonCode::from, as_result"
// @harness sym="two reason codes (all values), SUBACK or UNSUBACK" bounds="same shape; acknowledgement for the SUBSCRIBE id 5 with 2 codes"
#[kani::proof]
#[kani::unwind(6)]
fn c18_hp_suback_failure_surfaced() {
    let mut tx: [u8; 16] = kani::any();
    let (mut data, mut rt) = setup(&mut tx);
    let q0 = rt.send_quota;
    let codes: [u8; 2] = kani::any();
    let sub: bool = kani::any();
    let r = if sub {
        data.handle_packet(&mut rt, ReceivedPacket::SubAck(SubAck { packet_id: 5, _properties: Properties::from_slice(&[]), codes: &codes }))
    } else {
        data.handle_packet(&mut rt, ReceivedPacket::UnsubAck(UnsubAck { packet_id: 5, _properties: Properties::from_slice(&[]), codes: &codes }))
    };
    assert!(!data.outbound.has_retained(5), "C18: SUBACK/UNSUBACK completes the operation (entry leaves)");
    assert!(data.outbound.has_retained(3) && data.outbound.has_retained(4) && data.outbound.has_pending_release(9), "C02: nothing else is removed");
    assert!(rt.send_quota == q0, "C06: SUBACK returns no publish quota");
    kani::assume((known_success(codes[0]) || codes[0] >= 0x80) && (known_success(codes[1]) || codes[1] >= 0x80));
    let fail0 = codes[0] >= 0x80;
    let fail1 = codes[1] >= 0x80;
    if !fail0 && !fail1 {
        assert!(matches!(r, Ok(false)), "C18: all-success SUBACK is internal progress");
    } else {
        let first = if fail0 { codes[0] } else { codes[1] };
        assert!(matches!(r, Err(Error::Peer(PeerError::Rejected(rc))) if rc == ReasonCode::from(first)), "C18: the first failing reason code is surfaced as Rejected");
    }
    kani::cover!(fail1 && !fail0);
    kani::cover!(!fail0 && !fail1 && !sub);
}

// ---------------------------------------------------------------------------------------------
// C04: inbound publishes
// ---------------------------------------------------------------------------------------------
fn inbound<'a>(qos: QoS, id: Option<u16>) -> ReceivedPacket<'a> {
    ReceivedPacket::Publish(Publish {
        topic: Utf8String("t"),
        packet_id: id,
        properties: Properties::from_slice(&[]),
        payload: &[],
        retain: if kani::any() { Retain::Retained } else { Retain::NotRetained },
        qos,
        dup: kani::any(),
    })
}

// @harness props=C04 tier=quick layer=L2
// @harness funcs="SessionData::handle_packet (Publish QoS 0/1), Outbound::queue_control, check_control_packet_size"
// @harness sym="packet id, retain, dup, whether the id is pending as QoS 2, arena state" bounds="1 acknowledgement already queued, full retained list irrelevant (acks need no arena)"
#[kani::proof]
#[kani::unwind(10)]
fn c04_hp_publish_q0_q1() {
    let mut tx = [0u8; 8];
    let mut data = SessionData::new(&mut tx);
    let mut rt = RuntimeState::new(Duration::from_secs(60));
    // the arena is full: acknowledgements must still be queued
    data.outbound.retain_packet(77, 0, 8).unwrap();
    assert!(!data.outbound.can_retain());
    data.outbound.queue_control(ControlAction::PubComp { packet_id: 1, reason: ReasonCode::Success }).unwrap();
    let r0 = data.handle_packet(&mut rt, inbound(QoS::AtMostOnce, None));
    assert!(matches!(r0, Ok(true)), "C04: a QoS 0 publish is delivered");
    assert!(data.outbound.pending_control_len() == 1, "C04: QoS 0 owes no acknowledgement");
    let id: u16 = kani::any();
    let in_use: bool = kani::any();
    if in_use {
        data.pending_server_packet_ids.push(id).unwrap();
    }
    let r1 = data.handle_packet(&mut rt, inbound(QoS::AtLeastOnce, Some(id)));
    assert!(matches!(r1, Ok(true)), "C04: every QoS 1 publish is delivered");
    assert!(data.outbound.pending_control_len() == 2, "C04: exactly one PUBACK is owed per QoS 1 delivery, also with a full arena");
    // the earlier acknowledgement leaves first, then the PUBACK with the same identifier
    assert!(peek_control(&data.outbound, 0) == Some(ControlAction::PubComp { packet_id: 1, reason: ReasonCode::Success }), "C04/order: acknowledgements keep arrival order");
    let want = if in_use { ReasonCode::PacketIdInUse } else { ReasonCode::Success };
    assert!(peek_control(&data.outbound, 1) == Some(ControlAction::PubAck { packet_id: id, reason: want }), "C04: the PUBACK carries the identifier of the publish and is queued behind the earlier acknowledgement");
    // QoS 1 without identifier cannot come out of the decoder, but must not be acted upon
    let r2 = data.handle_packet(&mut rt, inbound(QoS::AtLeastOnce, None));
    assert!(matches!(r2, Err(Error::Peer(PeerError::InvalidPacket))), "C08: QoS 1 publish without identifier is invalid");
    kani::cover!(in_use);
}

// @harness props=C04 tier=quick layer=L2
// @harness funcs="SessionData::handle_packet (Publish QoS 2, PubRel)"
// @harness sym="packet id, second packet id, retain, dup" bounds="first delivery, retransmission, PUBREL, PUBREL again, new delivery of the same id"
#[kani::proof]
#[kani::unwind(10)]
fn c04_hp_publish_q2_exactly_once() {
    let mut tx = [0u8; 8];
    let mut data = SessionData::new(&mut tx);
    let mut rt = RuntimeState::new(Duration::from_secs(60));
    let id: u16 = kani::any();
    let other: u16 = kani::any();
    kani::assume(other != id);
    // first arrival: delivered, PUBREC(success)
    let r = data.handle_packet(&mut rt, inbound(QoS::ExactlyOnce, Some(id)));
    assert!(matches!(r, Ok(true)), "C04: first arrival of a QoS 2 publish is delivered");
    assert!(data.pending_server_packet_ids.contains(&id), "C04: the identifier is remembered until PUBREL");
    assert!(peek_control(&data.outbound, 0) == Some(ControlAction::PubRec { packet_id: id, reason: ReasonCode::Success }), "C04: PUBREC with the same identifier");
    // a second exchange with another identifier (smaller or larger: the pending list is in arrival
    // order, not sorted) starts in between
    data.pending_server_packet_ids.push(other).unwrap();
    // retransmission before PUBREL: acknowledged, not delivered
    let r = data.handle_packet(&mut rt, inbound(QoS::ExactlyOnce, Some(id)));
    assert!(matches!(r, Ok(false)), "C04: a retransmitted QoS 2 publish is delivered a second time");
    assert!(peek_control(&data.outbound, 1) == Some(ControlAction::PubRec { packet_id: id, reason: ReasonCode::Success }), "C04: the retransmission is still answered with PUBREC");
    assert!(data.pending_server_packet_ids.len() == 2, "C04: a duplicate is not recorded twice");
    // PUBREL: PUBCOMP(success), identifier forgotten, the other one kept
    let r = data.handle_packet(&mut rt, ReceivedPacket::PubRel(PubRel { packet_id: id, reason: ReasonCode::Success.into() }));
    assert!(matches!(r, Ok(false)));
    assert!(peek_control(&data.outbound, 2) == Some(ControlAction::PubComp { packet_id: id, reason: ReasonCode::Success }), "C04: PUBREL for a pending id is answered with PUBCOMP(success)");
    assert!(!data.pending_server_packet_ids.contains(&id) && data.pending_server_packet_ids.contains(&other), "C04: PUBREL releases exactly its identifier");
    // PUBREL again: PUBCOMP(not found)
    let r = data.handle_packet(&mut rt, ReceivedPacket::PubRel(PubRel { packet_id: id, reason: ReasonCode::Success.into() }));
    assert!(matches!(r, Ok(false)));
    assert!(peek_control(&data.outbound, 3) == Some(ControlAction::PubComp { packet_id: id, reason: ReasonCode::PacketIdNotFound }), "C04: PUBREL for an unknown id is answered with PUBCOMP(packet identifier not found)");
    // the identifier may be used for a new message now
    let r = data.handle_packet(&mut rt, inbound(QoS::ExactlyOnce, Some(id)));
    assert!(matches!(r, Ok(true)), "C04: after PUBREL the identifier denotes a new message, which is delivered");
    assert!(data.outbound.pending_control_len() == 5, "C04: one acknowledgement per inbound packet");
}

// @harness props=C04 tier=quick layer=L2
// @harness funcs="SessionData::handle_packet (Publish QoS 2, 8 ids pending)"
// @harness sym="packet id" bounds="8 inbound QoS 2 messages awaiting PUBREL (the advertised Receive Maximum) + a ninth"
#[kani::proof]
#[kani::unwind(11)]
fn c04_hp_publish_q2_window_full() {
    let mut tx = [0u8; 8];
    let mut data = SessionData::new(&mut tx);
    let mut rt = RuntimeState::new(Duration::from_secs(60));
    let mut k = 0u16;
    while k < 8 {
        data.pending_server_packet_ids.push(100 + k).unwrap();
        k += 1;
    }
    let id: u16 = kani::any();
    kani::assume(id < 100 || id > 107);
    let r = data.handle_packet(&mut rt, inbound(QoS::ExactlyOnce, Some(id)));
    // the broker exceeded the client's Receive Maximum: refused with the MQTT reason, not delivered
    assert!(matches!(r, Ok(false)), "C04: a publish beyond the advertised Receive Maximum is not delivered");
    assert!(peek_control(&data.outbound, 0) == Some(ControlAction::PubRec { packet_id: id, reason: ReasonCode::ReceiveMaxExceeded }), "C04: ... and answered with PUBREC(receive maximum exceeded)");
    assert!(data.pending_server_packet_ids.len() == 8);
    // a retransmission of a pending one is still recognised
    let r = data.handle_packet(&mut rt, inbound(QoS::ExactlyOnce, Some(103)));
    assert!(matches!(r, Ok(false)), "C04: duplicate suppression works with a full window");
    assert!(peek_control(&data.outbound, 1) == Some(ControlAction::PubRec { packet_id: 103, reason: ReasonCode::Success }), "C04: the retransmission of a pending message is acknowledged with PUBREC(success) also when the window is full");
    assert!(data.pending_server_packet_ids.len() == 8 && data.pending_server_packet_ids.contains(&103));
}

// @harness props=C14,C11,C04 tier=quick layer=L2
// @harness funcs="SessionData::handle_packet (Publish QoS1/2, PubRel, PubRec) with a Maximum Packet Size below the acknowledgement length"
// @harness sym="maximum packet size 0..4, packet kind, id" bounds="single packet"
#[kani::proof]
#[kani::unwind(8)]
fn c14_hp_ack_too_large() {
    let mut tx: [u8; 16] = kani::any();
    let (mut data, mut rt) = setup(&mut tx);
    let m: u32 = kani::any();
    kani::assume(m < 5);
    rt.maximum_packet_size = Some(m);
    let id: u16 = kani::any();
    let which: u8 = kani::any();
    let r = match which % 4 {
        0 => data.handle_packet(&mut rt, inbound(QoS::AtLeastOnce, Some(id))),
        1 => data.handle_packet(&mut rt, inbound(QoS::ExactlyOnce, Some(id))),
        2 => data.handle_packet(&mut rt, ReceivedPacket::PubRel(PubRel { packet_id: id, reason: ReasonCode::Success.into() })),
        _ => data.handle_packet(&mut rt, ReceivedPacket::PubRec(PubRec { packet_id: 4, reason: ReasonCode::Success.into() })),
    };
    assert!(matches!(r, Err(Error::Resource(ResourceError::PacketTooLarge))), "C14: a mandatory acknowledgement that does not fit ends with PacketTooLarge (the caller closes the connection)");
    assert!(data.outbound.pending_control_len() == 0, "C14: the oversize acknowledgement is not queued");
    assert!(!data.outbound.has_pending_release(4), "C14: no oversize PUBREL is queued");
    kani::cover!(which % 4 == 3);
}

// @harness props=C10,C11,C08 tier=quick layer=L2
// @harness funcs="SessionData::handle_packet (PingResp, Disconnect, ConnAck)"
// @harness sym="timers, reason" bounds="single packet"
#[kani::proof]
#[kani::unwind(6)]
fn c10_hp_pingresp_disconnect_connack() {
    let mut tx = [0u8; 8];
    let mut data = SessionData::new(&mut tx);
    let mut rt = RuntimeState::new(Duration::from_secs(60));
    let t: u64 = kani::any();
    rt.ping_timeout = Some(Instant::from_ticks(t));
    let np = rt.next_ping;
    let r = data.handle_packet(&mut rt, ReceivedPacket::PingResp);
    assert!(matches!(r, Ok(false)) && rt.ping_timeout.is_none(), "C10: PINGRESP cancels the dead-peer timer");
    assert!(rt.next_ping == np, "C10: PINGRESP does not move the ping schedule");
    let r = data.handle_packet(&mut rt, ReceivedPacket::Disconnect(Disconnect::with_reason(ReasonCode::from(kani::any::<u8>()))));
    assert!(matches!(r, Err(Error::Disconnected)), "C11: a broker DISCONNECT is reported as Disconnected");
    let r = data.handle_packet(
        &mut rt,
        ReceivedPacket::ConnAck(ConnAck { session_present: kani::any(), reason_code: ReasonCode::Success, properties: Properties::from_slice(&[]) }),
    );
    assert!(matches!(r, Err(Error::Peer(PeerError::InvalidPacket))), "C08: a second CONNACK is a protocol violation");
}

// ---------------------------------------------------------------------------------------------
// A5: process_received_packet (not an async fn: runs in the unmodified crate)
// ---------------------------------------------------------------------------------------------
use crate::mqtt_client::ConnectEvent;
use crate::{Buffers, ConfigBuilder, Session};

static mut HP_RESULT: u8 = 0;
static mut HP_CALLS: u8 = 0;

/// stub for `SessionData::handle_packet`: an arbitrary outcome of every kind it can produce
fn st_handle_packet<'a>(_d: &mut SessionData<'a>, _rt: &mut RuntimeState, _p: ReceivedPacket<'_>) -> Result<bool, Error<Infallible>>
where
    'a: 'a,
{
    unsafe {
        HP_CALLS += 1;
        match HP_RESULT {
            0 => Ok(true),
            1 => Ok(false),
            2 => Err(Error::Disconnected),
            3 => Err(Error::Peer(PeerError::InvalidPacket)),
            4 => Err(Error::Resource(ResourceError::PacketTooLarge)),
            5 => Err(Error::Peer(PeerError::Rejected(ReasonCode::from(kani::any::<u8>())))),
            _ => Err(Error::Resource(ResourceError::InflightExhausted)),
        }
    }
}

struct NoIo;
impl embedded_io_async::ErrorType for NoIo {
    type Error = embedded_io_async::ErrorKind;
}
impl embedded_io_async::Read for NoIo {
    async fn read(&mut self, _b: &mut [u8]) -> Result<usize, Self::Error> {
        unreachable!()
    }
}
impl embedded_io_async::Write for NoIo {
    async fn write(&mut self, _b: &[u8]) -> Result<usize, Self::Error> {
        unreachable!()
    }
    async fn flush(&mut self) -> Result<(), Self::Error> {
        unreachable!()
    }
}

// @harness props=C08,C11,C18,C14 tier=quick layer=L3c
// @harness funcs="Connection::process_received_packet, handle_disconnect, Session::handle_disconnect"
// @harness sym="decode outcome (packet / malformed / deserialization error), handler outcome (deliver / internal / Disconnected / InvalidPacket / PacketTooLarge / Rejected(any code) / InflightExhausted), prior reader state" bounds="one buffered packet"
// @harness assumes="decoder and handler replaced by stubs with arbitrary results (their own harnesses: c08_dec_*, c02_hp_* ... c14_hp_*)"
#[kani::proof]
#[kani::unwind(6)]
#[kani::stub(crate::de::PacketReader::take_packet, crate::de::verif_x_de::reader_obs::st_take_packet)]
#[kani::stub(SessionData::handle_packet, st_handle_packet)]
fn c08_bad_packet_latches() {
    use crate::de::verif_x_de::reader_obs;
    let mut rx = [0xD0u8, 0, 0, 0];
    let mut tx = [0u8; 8];
    let mut session = Session::new(ConfigBuilder::new(Buffers::new(&mut rx, &mut tx)));
    session.packet_reader.commit(2);
    let _ = session.packet_reader.receive_buffer();
    assert!(session.packet_reader.packet_available());
    session.data.outbound.retain_packet(5, 0, 2).unwrap();
    session.runtime.next_ping = Some(embassy_time::Instant::from_ticks(7));
    let decode_ok: bool = kani::any();
    let hp: u8 = kani::any();
    kani::assume(hp <= 6);
    unsafe {
        reader_obs::RP_KIND = if decode_ok { 2 } else { 3 };
        HP_RESULT = hp;
        HP_CALLS = 0;
    }
    let mut conn = Connection { session: &mut session, io: NoIo, event: ConnectEvent::Connected, live: true };
    let r = conn.process_received_packet();
    unsafe {
        if !decode_ok {
            assert!(matches!(r, Err(Error::Peer(PeerError::InvalidPacket))), "C08: an undecodable packet must be reported as the invalid-packet error");
            assert!(!conn.live, "C08/C11: an invalid inbound packet must kill the connection handle");
            assert!(HP_CALLS == 0, "C08: a rejected packet must not be acted upon");
        } else {
            assert!(HP_CALLS == 1);
            match hp {
                0 => assert!(matches!(r, Ok(Some(2))) && conn.live, "C04: a deliverable publish is surfaced"),
                1 => assert!(matches!(r, Ok(None)) && conn.live, "internal progress"),
                2 => assert!(matches!(r, Err(Error::Disconnected)) && !conn.live, "C11: broker DISCONNECT latches the handle"),
                3 => assert!(matches!(r, Err(Error::Peer(PeerError::InvalidPacket))) && !conn.live, "C08/C11: protocol violation latches the handle"),
                4 => assert!(matches!(r, Err(Error::Resource(ResourceError::PacketTooLarge))) && !conn.live, "C14: a mandatory acknowledgement that does not fit closes the connection"),
                5 => assert!(matches!(r, Err(Error::Peer(PeerError::Rejected(_)))) && conn.live, "C18: a failure reason code is surfaced as Rejected without killing the handle"),
                _ => assert!(matches!(r, Err(Error::Resource(ResourceError::InflightExhausted))) && conn.live, "InflightExhausted is surfaced, not fatal"),
            }
        }
        if !conn.live {
            assert!(!conn.session.packet_reader.packet_available() && conn.session.runtime.next_ping.is_none(), "C12: a dead handle leaves reader and timers reset");
            assert!(conn.session.data.outbound.has_retained(5), "C02: in-flight messages survive the loss of the connection");
        }
        assert!(!conn.session.packet_reader.packet_available(), "C08: the packet is consumed exactly once");
    }
    kani::cover!(!decode_ok);
    kani::cover!(decode_ok && hp == 5);
}

// @harness props=C04 tier=quick layer=L2
// @harness funcs="Connection::decode_inbound_publish, ReceivedPacket::from_buffer, InboundPublish::{topic,payload,qos,retained,properties}"
// @harness sym="topic byte (ASCII), packet id, payload byte, 1-byte property value" bounds="QoS 1 retained PUBLISH of 11 bytes with one property (PayloadFormatIndicator) in a 16-byte receive buffer, followed by garbage"
// @harness assumes="core::str::from_utf8 replaced by utf8_ok"
#[kani::proof]
#[kani::unwind(8)]
#[kani::stub(core::str::from_utf8, crate::verif_common::stub_from_utf8)]
fn c04_decode_inbound_publish_fidelity() {
    let t: u8 = kani::any();
    kani::assume(t < 0x80);
    let id: u16 = kani::any();
    let pay: u8 = kani::any();
    let pfi: u8 = kani::any();
    let junk: [u8; 5] = kani::any();
    // 33 09 | 00 01 t | id id | 02 01 pfi | pay | junk...
    let mut rx = [0x33, 0x09, 0x00, 0x01, t, (id >> 8) as u8, id as u8, 0x02, 0x01, pfi, pay, junk[0], junk[1], junk[2], junk[3], junk[4]];
    let mut tx = [0u8; 8];
    let mut session = Session::new(ConfigBuilder::new(Buffers::new(&mut rx, &mut tx)));
    let conn = Connection { session: &mut session, io: NoIo, event: ConnectEvent::Connected, live: true };
    let m = conn.decode_inbound_publish(11);
    assert!(m.topic().len() == 1 && m.topic().as_bytes()[0] == t, "C04: topic surfaced exactly as sent");
    assert!(m.payload().len() == 1 && m.payload()[0] == pay, "C04: payload surfaced exactly as sent (and nothing of the bytes behind the packet)");
    assert!(m.qos() == QoS::AtLeastOnce && m.retained(), "C04: QoS and retain flag surfaced as sent");
    assert!(m.properties().size() == 2, "C04: the property block is exactly the packet's");
    let mut it = m.properties().iter();
    assert!(matches!(it.next(), Some(Ok(crate::Property::PayloadFormatIndicator(v))) if v == pfi), "C04: properties surfaced as sent");
}
