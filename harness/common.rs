//! Shared harness support: symbolic clock, poll helper, MQTT 5 reference checker/decoder.
//! Attached to lib.rs as `crate::verif_common` in both overlays.
#![allow(dead_code)]

use core::future::Future;
use core::pin::Pin;
use core::task::{Context, Poll, RawWaker, RawWakerVTable, Waker};

// ---------------------------------------------------------------------------------------------
// symbolic clock (stub for embassy_time::Instant::now)
// ---------------------------------------------------------------------------------------------
pub(crate) static mut NOW: u64 = 0;
/// Set by a stubbed read to say "the read would block"; consumed by `with_deadline` (projection).
pub(crate) static mut WOULD_BLOCK: bool = false;
pub(crate) static mut NOW_CALLS: u32 = 0;

pub(crate) const CLOCK_LIMIT: u64 = 1 << 61;

/// Non-decreasing arbitrary clock.  Total < 2^62 ticks so `Instant + Duration` cannot overflow.
pub(crate) fn stub_now() -> embassy_time::Instant {
    unsafe {
        let d: u64 = kani::any();
        kani::assume(d < CLOCK_LIMIT);
        kani::assume(NOW < CLOCK_LIMIT);
        NOW += d;
        NOW_CALLS += 1;
        embassy_time::Instant::from_ticks(NOW)
    }
}

pub(crate) fn stub_wake(_at: u64, _w: &Waker) {}

/// Model of `embassy_time::with_deadline` in the schedule-free projection: the (already
/// evaluated) read result is returned unless the stubbed read flagged *would block*, in which
/// case the clock jumps to the deadline and the timeout is reported (embassy polls the inner
/// future first, then the timer).
pub(crate) fn with_deadline<T>(at: embassy_time::Instant, v: T) -> Result<T, embassy_time::TimeoutError> {
    unsafe {
        if WOULD_BLOCK {
            WOULD_BLOCK = false;
            if NOW < at.as_ticks() {
                NOW = at.as_ticks();
            }
            return Err(embassy_time::TimeoutError);
        }
    }
    Ok(v)
}

// ---------------------------------------------------------------------------------------------
// polling
// ---------------------------------------------------------------------------------------------
const NOOP: RawWaker = {
    unsafe fn c(_: *const ()) -> RawWaker {
        NOOP
    }
    unsafe fn n(_: *const ()) {}
    RawWaker::new(core::ptr::null(), &RawWakerVTable::new(c, n, n, n))
};

pub(crate) fn poll_once<F: Future>(f: Pin<&mut F>) -> Poll<F::Output> {
    let w = unsafe { Waker::from_raw(NOOP) };
    let mut cx = Context::from_waker(&w);
    f.poll(&mut cx)
}

/// A future that is `Pending` exactly once.
pub(crate) struct YieldOnce(pub(crate) bool);
impl Future for YieldOnce {
    type Output = ();
    fn poll(mut self: Pin<&mut Self>, _cx: &mut Context<'_>) -> Poll<()> {
        if self.0 {
            Poll::Ready(())
        } else {
            self.0 = true;
            Poll::Pending
        }
    }
}

// ---------------------------------------------------------------------------------------------
// UTF-8 reference validator (RFC 3629 table).  Used (a) as a cheap stub for core::str::from_utf8
// in decoder harnesses, after being checked against the real function, and (b) by the oracle.
// ---------------------------------------------------------------------------------------------
pub(crate) fn utf8_ok(b: &[u8]) -> bool {
    let n = b.len();
    let mut i = 0usize;
    while i < n {
        let c = b[i];
        if c < 0x80 {
            i += 1;
            continue;
        }
        let (need, lo, hi) = match c {
            0xC2..=0xDF => (1usize, 0x80u8, 0xBFu8),
            0xE0 => (2, 0xA0, 0xBF),
            0xE1..=0xEC | 0xEE..=0xEF => (2, 0x80, 0xBF),
            0xED => (2, 0x80, 0x9F),
            0xF0 => (3, 0x90, 0xBF),
            0xF1..=0xF3 => (3, 0x80, 0xBF),
            0xF4 => (3, 0x80, 0x8F),
            _ => return false,
        };
        if n - i <= need {
            return false; // truncated sequence
        }
        let c1 = b[i + 1];
        if c1 < lo || c1 > hi {
            return false;
        }
        let mut k = 2usize;
        while k <= need {
            let ck = b[i + k];
            if ck < 0x80 || ck > 0xBF {
                return false;
            }
            k += 1;
        }
        i += need + 1;
    }
    true
}

/// Stub with the signature of `core::str::from_utf8`.
pub(crate) fn stub_from_utf8(v: &[u8]) -> Result<&str, core::str::Utf8Error> {
    if utf8_ok(v) {
        Ok(unsafe { core::str::from_utf8_unchecked(v) })
    } else {
        // obtain a genuine Utf8Error value without running the real validator on symbolic data
        Err(BAD_UTF8_ERR())
    }
}

#[allow(non_snake_case)]
fn BAD_UTF8_ERR() -> core::str::Utf8Error {
    // Utf8Error { valid_up_to: usize, error_len: Option<u8> } has no public constructor; all the
    // crate does with it is `map_err(|_| ..)`, so any value of the type will do.
    unsafe { core::mem::transmute::<(usize, Option<u8>), core::str::Utf8Error>((0usize, None)) }
}

// ---------------------------------------------------------------------------------------------
// Reference MQTT 5 packet checker (independent of the crate's codec)
// ---------------------------------------------------------------------------------------------

/// Which side sent the packet: the oracle for outbound traffic only accepts client packets.
#[derive(Copy, Clone, PartialEq, Eq)]
pub(crate) enum Dir {
    ClientToServer,
    ServerToClient,
}

#[derive(Copy, Clone)]
pub(crate) struct Cursor<'a> {
    pub(crate) b: &'a [u8],
    pub(crate) i: usize,
    pub(crate) ok: bool,
}

impl<'a> Cursor<'a> {
    pub(crate) fn new(b: &'a [u8]) -> Self {
        Cursor { b, i: 0, ok: true }
    }
    pub(crate) fn left(&self) -> usize {
        self.b.len() - self.i
    }
    pub(crate) fn u8(&mut self) -> u8 {
        if !self.ok || self.left() < 1 {
            self.ok = false;
            return 0;
        }
        let v = self.b[self.i];
        self.i += 1;
        v
    }
    pub(crate) fn u16(&mut self) -> u16 {
        let h = self.u8() as u16;
        let l = self.u8() as u16;
        (h << 8) | l
    }
    pub(crate) fn u32(&mut self) -> u32 {
        let h = self.u16() as u32;
        let l = self.u16() as u32;
        (h << 16) | l
    }
    /// canonical variable byte integer
    pub(crate) fn varint(&mut self) -> u32 {
        let mut v = 0u32;
        let mut k = 0u32;
        while k < 4 {
            let c = self.u8();
            if !self.ok {
                return 0;
            }
            v |= ((c & 0x7F) as u32) << (7 * k);
            if c & 0x80 == 0 {
                if k > 0 && c == 0 {
                    self.ok = false; // non-canonical
                }
                return v;
            }
            k += 1;
        }
        self.ok = false;
        0
    }
    pub(crate) fn bytes(&mut self, n: usize) -> &'a [u8] {
        if !self.ok || self.left() < n {
            self.ok = false;
            return &[];
        }
        let s = &self.b[self.i..self.i + n];
        self.i += n;
        s
    }
    pub(crate) fn bin(&mut self) -> &'a [u8] {
        let n = self.u16() as usize;
        self.bytes(n)
    }
    pub(crate) fn string(&mut self) -> &'a [u8] {
        let s = self.bin();
        if self.ok && !utf8_ok(s) {
            self.ok = false;
        }
        s
    }
}

/// Property identifiers and the shape of their value. 0 = unknown id.
/// 1 = byte, 2 = u16, 4 = u32, 5 = varint, 6 = string, 7 = binary, 8 = string pair
pub(crate) fn prop_shape(id: u32) -> u8 {
    match id {
        0x01 | 0x17 | 0x19 | 0x24 | 0x25 | 0x28 | 0x29 | 0x2A => 1,
        0x13 | 0x21 | 0x22 | 0x23 => 2,
        0x02 | 0x11 | 0x18 | 0x27 => 4,
        0x0B => 5,
        0x03 | 0x08 | 0x12 | 0x15 | 0x1A | 0x1C | 0x1F => 6,
        0x09 | 0x16 => 7,
        0x26 => 8,
        _ => 0,
    }
}

/// Packet contexts for property legality (MQTT 5 table 2-4, client-sent packets + will).
#[derive(Copy, Clone, PartialEq, Eq)]
pub(crate) enum Ctx {
    Connect,
    Will,
    Publish,
    PubAckLike,
    Subscribe,
    Unsubscribe,
    Disconnect,
    // server-sent
    ConnAck,
    SubAckLike,
}

pub(crate) fn prop_allowed(ctx: Ctx, id: u32) -> bool {
    match ctx {
        Ctx::Connect => matches!(id, 0x11 | 0x15 | 0x16 | 0x17 | 0x19 | 0x21 | 0x22 | 0x26 | 0x27),
        Ctx::Will => matches!(id, 0x01 | 0x02 | 0x03 | 0x08 | 0x09 | 0x18 | 0x26),
        Ctx::Publish => matches!(id, 0x01 | 0x02 | 0x03 | 0x08 | 0x09 | 0x0B | 0x23 | 0x26),
        Ctx::PubAckLike => matches!(id, 0x1F | 0x26),
        Ctx::Subscribe => matches!(id, 0x0B | 0x26),
        Ctx::Unsubscribe => matches!(id, 0x26),
        Ctx::Disconnect => matches!(id, 0x11 | 0x1C | 0x1F | 0x26),
        Ctx::ConnAck => matches!(
            id,
            0x11 | 0x12 | 0x13 | 0x15 | 0x16 | 0x1A | 0x1C | 0x1F | 0x21 | 0x22 | 0x24 | 0x25 | 0x26 | 0x27 | 0x28 | 0x29 | 0x2A
        ),
        Ctx::SubAckLike => matches!(id, 0x1F | 0x26),
    }
}

/// Skip one property value; returns false on malformed.
pub(crate) fn skip_prop_value(c: &mut Cursor<'_>, shape: u8) {
    match shape {
        1 => {
            c.u8();
        }
        2 => {
            c.u16();
        }
        4 => {
            c.u32();
        }
        5 => {
            c.varint();
        }
        6 => {
            c.string();
        }
        7 => {
            c.bin();
        }
        8 => {
            c.string();
            c.string();
        }
        _ => c.ok = false,
    }
}

/// Check a property block (length prefix + properties) for context `ctx`; at most `max_props`
/// properties are walked (harness bound).  Returns the number of properties.
pub(crate) fn check_props(c: &mut Cursor<'_>, ctx: Ctx, max_props: usize) -> usize {
    let len = c.varint() as usize;
    if !c.ok || c.left() < len {
        c.ok = false;
        return 0;
    }
    let end = c.i + len;
    let mut n = 0usize;
    while c.ok && c.i < end {
        if n >= max_props {
            c.ok = false;
            return n;
        }
        let id = c.varint();
        let shape = prop_shape(id);
        if shape == 0 || !prop_allowed(ctx, id) {
            c.ok = false;
            return n;
        }
        skip_prop_value(c, shape);
        n += 1;
    }
    if c.i != end {
        c.ok = false;
    }
    n
}

/// Summary of a well-formed packet.
#[derive(Copy, Clone)]
pub(crate) struct Parsed {
    pub(crate) ok: bool,
    pub(crate) typ: u8,
    pub(crate) flags: u8,
    pub(crate) packet_id: u16,
    pub(crate) total_len: usize,
}

pub(crate) const BAD: Parsed = Parsed { ok: false, typ: 0, flags: 0, packet_id: 0, total_len: 0 };

/// Strict MQTT 5 well-formedness of exactly one **client** packet occupying all of `b`.
/// Bounded: at most `max_props` properties per block and `max_topics` filters.
pub(crate) fn check_client_packet(b: &[u8], max_props: usize, max_topics: usize) -> Parsed {
    let mut c = Cursor::new(b);
    let h = c.u8();
    let typ = h >> 4;
    let flags = h & 0x0F;
    let rl = c.varint() as usize;
    if !c.ok || c.left() != rl {
        return BAD; // exact remaining length, no trailing bytes
    }
    let mut packet_id = 0u16;
    match typ {
        1 => {
            if flags != 0 {
                return BAD;
            }
            let name = c.string();
            if !c.ok || name.len() != 4 || name[0] != b'M' || name[1] != b'Q' || name[2] != b'T' || name[3] != b'T' {
                return BAD;
            }
            if c.u8() != 5 {
                return BAD;
            }
            let cf = c.u8();
            if cf & 1 != 0 {
                return BAD;
            }
            let will = cf & 0x04 != 0;
            let will_qos = (cf >> 3) & 3;
            if will_qos == 3 || (!will && (will_qos != 0 || cf & 0x20 != 0)) {
                return BAD;
            }
            c.u16();
            check_props(&mut c, Ctx::Connect, max_props);
            c.string();
            if will {
                check_props(&mut c, Ctx::Will, max_props);
                c.string();
                c.bin();
            }
            if cf & 0x80 != 0 {
                c.string();
            }
            if cf & 0x40 != 0 {
                c.bin();
            }
        }
        3 => {
            let qos = (flags >> 1) & 3;
            if qos == 3 {
                return BAD;
            }
            if qos == 0 && flags & 0x08 != 0 {
                return BAD; // DUP must be 0 for QoS 0
            }
            let t = c.string();
            if c.ok && t.len() == 0 {
                // topic alias not used by this client: empty topic would need an alias
                // (checked by the caller when relevant)
            }
            if qos > 0 {
                packet_id = c.u16();
                if packet_id == 0 {
                    return BAD;
                }
            }
            check_props(&mut c, Ctx::Publish, max_props);
            // payload: rest
            let l = c.left();
            c.bytes(l);
        }
        4 | 5 | 7 => {
            if flags != 0 {
                return BAD;
            }
            packet_id = c.u16();
            if packet_id == 0 {
                return BAD;
            }
            if c.left() > 0 {
                c.u8();
                if c.left() > 0 {
                    check_props(&mut c, Ctx::PubAckLike, max_props);
                }
            }
        }
        6 => {
            if flags != 2 {
                return BAD;
            }
            packet_id = c.u16();
            if packet_id == 0 {
                return BAD;
            }
            if c.left() > 0 {
                c.u8();
                if c.left() > 0 {
                    check_props(&mut c, Ctx::PubAckLike, max_props);
                }
            }
        }
        8 => {
            if flags != 2 {
                return BAD;
            }
            packet_id = c.u16();
            if packet_id == 0 {
                return BAD;
            }
            check_props(&mut c, Ctx::Subscribe, max_props);
            let mut n = 0usize;
            while c.ok && c.left() > 0 {
                if n >= max_topics {
                    return BAD;
                }
                c.string();
                let o = c.u8();
                if o & 0xC0 != 0 || (o & 3) == 3 || ((o >> 4) & 3) == 3 {
                    return BAD;
                }
                n += 1;
            }
            if n == 0 {
                return BAD;
            }
        }
        10 => {
            if flags != 2 {
                return BAD;
            }
            packet_id = c.u16();
            if packet_id == 0 {
                return BAD;
            }
            check_props(&mut c, Ctx::Unsubscribe, max_props);
            let mut n = 0usize;
            while c.ok && c.left() > 0 {
                if n >= max_topics {
                    return BAD;
                }
                c.string();
                n += 1;
            }
            if n == 0 {
                return BAD;
            }
        }
        12 => {
            if flags != 0 || rl != 0 {
                return BAD;
            }
        }
        14 => {
            if flags != 0 {
                return BAD;
            }
            if c.left() > 0 {
                c.u8();
                if c.left() > 0 {
                    check_props(&mut c, Ctx::Disconnect, max_props);
                }
            }
        }
        _ => return BAD, // reserved, server-only (2, 9, 11, 13) or AUTH (never requested)
    }
    if !c.ok || c.left() != 0 {
        return BAD;
    }
    Parsed { ok: true, typ, flags, packet_id, total_len: b.len() }
}

// ---------------------------------------------------------------------------------------------
// symbolic Property values
// ---------------------------------------------------------------------------------------------
use crate::Property;

pub(crate) const STR3: &str = "abc";
pub(crate) const BIN3: &[u8] = &[0xC3, 0x28, 0x00]; // deliberately not UTF-8: binary data is opaque

/// `&STR3[..n]` for a symbolic n <= 3.
pub(crate) fn any_str3() -> &'static str {
    let n: usize = kani::any();
    kani::assume(n <= 3);
    &STR3[..n]
}
pub(crate) fn any_bin3() -> &'static [u8] {
    let n: usize = kani::any();
    kani::assume(n <= 3);
    &BIN3[..n]
}

/// Property of symbolic kind (index 0..27) with symbolic scalar value and the given strings.
pub(crate) fn prop_of_kind(kind: u8, s: &'static str, s2: &'static str, b: &'static [u8]) -> Property<'static> {
    let v8: u8 = kani::any();
    let v16: u16 = kani::any();
    let v32: u32 = kani::any();
    match kind {
        0 => Property::PayloadFormatIndicator(v8),
        1 => Property::MessageExpiryInterval(v32),
        2 => Property::ContentType(s),
        3 => Property::ResponseTopic(s),
        4 => Property::CorrelationData(b),
        5 => Property::SubscriptionIdentifier(v32),
        6 => Property::SessionExpiryInterval(v32),
        7 => Property::AssignedClientIdentifier(s),
        8 => Property::ServerKeepAlive(v16),
        9 => Property::AuthenticationMethod(s),
        10 => Property::AuthenticationData(b),
        11 => Property::RequestProblemInformation(v8),
        12 => Property::WillDelayInterval(v32),
        13 => Property::RequestResponseInformation(v8),
        14 => Property::ResponseInformation(s),
        15 => Property::ServerReference(s),
        16 => Property::ReasonString(s),
        17 => Property::ReceiveMaximum(v16),
        18 => Property::TopicAliasMaximum(v16),
        19 => Property::TopicAlias(v16),
        20 => Property::MaximumQoS(v8),
        21 => Property::RetainAvailable(v8),
        22 => Property::UserProperty(s, s2),
        23 => Property::MaximumPacketSize(v32),
        24 => Property::WildcardSubscriptionAvailable(v8),
        25 => Property::SubscriptionIdentifierAvailable(v8),
        _ => Property::SharedSubscriptionAvailable(v8),
    }
}

pub(crate) const N_PROP_KINDS: u8 = 27;

/// MQTT 5 identifier of the property (independent transcription of table 2-4).
pub(crate) fn ref_prop_id(p: &Property<'_>) -> u32 {
    match p {
        Property::PayloadFormatIndicator(_) => 0x01,
        Property::MessageExpiryInterval(_) => 0x02,
        Property::ContentType(_) => 0x03,
        Property::ResponseTopic(_) => 0x08,
        Property::CorrelationData(_) => 0x09,
        Property::SubscriptionIdentifier(_) => 0x0B,
        Property::SessionExpiryInterval(_) => 0x11,
        Property::AssignedClientIdentifier(_) => 0x12,
        Property::ServerKeepAlive(_) => 0x13,
        Property::AuthenticationMethod(_) => 0x15,
        Property::AuthenticationData(_) => 0x16,
        Property::RequestProblemInformation(_) => 0x17,
        Property::WillDelayInterval(_) => 0x18,
        Property::RequestResponseInformation(_) => 0x19,
        Property::ResponseInformation(_) => 0x1A,
        Property::ServerReference(_) => 0x1C,
        Property::ReasonString(_) => 0x1F,
        Property::ReceiveMaximum(_) => 0x21,
        Property::TopicAliasMaximum(_) => 0x22,
        Property::TopicAlias(_) => 0x23,
        Property::MaximumQoS(_) => 0x24,
        Property::RetainAvailable(_) => 0x25,
        Property::UserProperty(_, _) => 0x26,
        Property::MaximumPacketSize(_) => 0x27,
        Property::WildcardSubscriptionAvailable(_) => 0x28,
        Property::SubscriptionIdentifierAvailable(_) => 0x29,
        Property::SharedSubscriptionAvailable(_) => 0x2A,
    }
}

/// Reference encoding of one property into `out`; returns the length (independent of the crate's
/// serializer: written from the MQTT 5 data representation rules).
pub(crate) fn ref_encode_prop(p: &Property<'_>, out: &mut [u8; 24]) -> usize {
    let mut n = 0usize;
    fn put(out: &mut [u8; 24], n: &mut usize, b: u8) {
        out[*n] = b;
        *n += 1;
    }
    fn put_bin(out: &mut [u8; 24], n: &mut usize, b: &[u8]) {
        put(out, n, (b.len() >> 8) as u8);
        put(out, n, b.len() as u8);
        let mut i = 0;
        while i < b.len() {
            put(out, n, b[i]);
            i += 1;
        }
    }
    put(out, &mut n, ref_prop_id(p) as u8);
    match p {
        Property::PayloadFormatIndicator(v)
        | Property::RequestProblemInformation(v)
        | Property::RequestResponseInformation(v)
        | Property::MaximumQoS(v)
        | Property::RetainAvailable(v)
        | Property::WildcardSubscriptionAvailable(v)
        | Property::SubscriptionIdentifierAvailable(v)
        | Property::SharedSubscriptionAvailable(v) => put(out, &mut n, *v),
        Property::ServerKeepAlive(v) | Property::ReceiveMaximum(v) | Property::TopicAliasMaximum(v) | Property::TopicAlias(v) => {
            put(out, &mut n, (*v >> 8) as u8);
            put(out, &mut n, *v as u8);
        }
        Property::MessageExpiryInterval(v)
        | Property::SessionExpiryInterval(v)
        | Property::WillDelayInterval(v)
        | Property::MaximumPacketSize(v) => {
            put(out, &mut n, (*v >> 24) as u8);
            put(out, &mut n, (*v >> 16) as u8);
            put(out, &mut n, (*v >> 8) as u8);
            put(out, &mut n, *v as u8);
        }
        Property::SubscriptionIdentifier(v) => {
            // all four candidate bytes are written at concrete positions (a write at a symbolic
            // index would make every earlier byte of `out` symbolic for CBMC's constant folding);
            // only the length is symbolic
            let x = *v;
            let b0 = (x & 0x7F) as u8;
            let b1 = ((x >> 7) & 0x7F) as u8;
            let b2 = ((x >> 14) & 0x7F) as u8;
            let b3 = ((x >> 21) & 0x7F) as u8;
            let len = if x < 0x80 { 1 } else if x < 0x4000 { 2 } else if x < 0x20_0000 { 3 } else { 4 };
            out[n] = if len > 1 { b0 | 0x80 } else { b0 };
            out[n + 1] = if len > 2 { b1 | 0x80 } else if len > 1 { b1 } else { 0 };
            out[n + 2] = if len > 3 { b2 | 0x80 } else if len > 2 { b2 } else { 0 };
            out[n + 3] = if len > 3 { b3 } else { 0 };
            n += len;
        }
        Property::ContentType(s)
        | Property::ResponseTopic(s)
        | Property::AssignedClientIdentifier(s)
        | Property::AuthenticationMethod(s)
        | Property::ResponseInformation(s)
        | Property::ServerReference(s)
        | Property::ReasonString(s) => put_bin(out, &mut n, s.as_bytes()),
        Property::CorrelationData(b) | Property::AuthenticationData(b) => put_bin(out, &mut n, b),
        Property::UserProperty(k, v) => {
            put_bin(out, &mut n, k.as_bytes());
            put_bin(out, &mut n, v.as_bytes());
        }
    }
    n
}

// ---------------------------------------------------------------------------------------------
// Reference checker for packets a broker sends to a client (no AUTH, no topic alias)
// ---------------------------------------------------------------------------------------------
#[derive(Copy, Clone)]
pub(crate) struct ServerParsed {
    pub(crate) ok: bool,
    pub(crate) typ: u8,
    pub(crate) flags: u8,
    pub(crate) packet_id: u16,
    pub(crate) has_id: bool,
    pub(crate) reason: u8,
    pub(crate) has_reason: bool,
    pub(crate) session_present: bool,
    /// property block (without its length prefix): offset, length
    pub(crate) props: (usize, usize),
    pub(crate) has_props: bool,
    pub(crate) topic: (usize, usize),
    /// payload / reason-code list: offset, length
    pub(crate) rest: (usize, usize),
}

pub(crate) const SBAD: ServerParsed = ServerParsed {
    ok: false, typ: 0, flags: 0, packet_id: 0, has_id: false, reason: 0, has_reason: false,
    session_present: false, props: (0, 0), has_props: false, topic: (0, 0), rest: (0, 0),
};

fn props_block(c: &mut Cursor<'_>, strict: bool, ctx: Ctx, max_props: usize) -> (usize, usize) {
    if strict {
        // validate contents too
        let mut probe = *c;
        check_props(&mut probe, ctx, max_props);
        if !probe.ok {
            c.ok = false;
            return (0, 0);
        }
    }
    let len = c.varint() as usize;
    let start = c.i;
    c.bytes(len);
    (start, len)
}

/// `strict = false`: structural validity only — exactly the malformed classes C08 lists are
/// rejected (type, flags, QoS 3, non-canonical or wrong remaining length, fields past the end,
/// trailing bytes, invalid UTF-8 topic).  `strict = true`: additionally everything MQTT 5 demands
/// of a server packet that this client can receive (legal well-formed properties, non-zero ids,
/// DUP only with QoS > 0, at least one reason code in SUBACK/UNSUBACK, boolean flags).
pub(crate) fn check_server_packet(b: &[u8], strict: bool, max_props: usize) -> ServerParsed {
    let mut c = Cursor::new(b);
    let h = c.u8();
    let typ = h >> 4;
    let flags = h & 0x0F;
    let rl = c.varint() as usize;
    if !c.ok || c.left() != rl {
        return SBAD;
    }
    let mut p = SBAD;
    p.typ = typ;
    p.flags = flags;
    match typ {
        2 => {
            if flags != 0 {
                return SBAD;
            }
            let af = c.u8();
            if af > 1 {
                return SBAD;
            }
            p.session_present = af == 1;
            p.reason = c.u8();
            p.has_reason = true;
            p.props = props_block(&mut c, strict, Ctx::ConnAck, max_props);
            p.has_props = true;
            if strict && p.session_present && p.reason != 0 {
                return SBAD;
            }
        }
        3 => {
            let qos = (flags >> 1) & 3;
            if qos == 3 {
                return SBAD;
            }
            if strict && qos == 0 && flags & 8 != 0 {
                return SBAD;
            }
            let tl = c.u16() as usize;
            let ts = c.i;
            let t = c.bytes(tl);
            if !c.ok || !utf8_ok(t) {
                return SBAD;
            }
            p.topic = (ts, tl);
            if strict && tl == 0 {
                return SBAD; // an empty topic needs a topic alias, which this client never enables
            }
            if qos > 0 {
                p.packet_id = c.u16();
                p.has_id = true;
                if strict && p.packet_id == 0 {
                    return SBAD;
                }
            }
            p.props = props_block(&mut c, strict, Ctx::Publish, max_props);
            p.has_props = true;
            p.rest = (c.i, c.left());
            let l = c.left();
            c.bytes(l);
        }
        4 | 5 | 6 | 7 => {
            if (typ == 6 && flags != 2) || (typ != 6 && flags != 0) {
                return SBAD;
            }
            p.packet_id = c.u16();
            p.has_id = true;
            if strict && p.packet_id == 0 {
                return SBAD;
            }
            if c.left() > 0 {
                p.reason = c.u8();
                p.has_reason = true;
                if c.left() > 0 {
                    p.props = props_block(&mut c, strict, Ctx::PubAckLike, max_props);
                    p.has_props = true;
                }
            }
        }
        9 | 11 => {
            if flags != 0 {
                return SBAD;
            }
            p.packet_id = c.u16();
            p.has_id = true;
            p.props = props_block(&mut c, strict, Ctx::SubAckLike, max_props);
            p.has_props = true;
            p.rest = (c.i, c.left());
            if strict && (c.left() == 0 || p.packet_id == 0) {
                return SBAD;
            }
            let l = c.left();
            c.bytes(l);
        }
        13 => {
            if flags != 0 || rl != 0 {
                return SBAD;
            }
        }
        14 => {
            if flags != 0 {
                return SBAD;
            }
            if c.left() > 0 {
                p.reason = c.u8();
                p.has_reason = true;
                if c.left() > 0 {
                    p.props = props_block(&mut c, strict, Ctx::Disconnect, max_props);
                    p.has_props = true;
                }
            }
        }
        _ => return SBAD, // reserved (0), client-only (1, 8, 10, 12), AUTH (15: never negotiated)
    }
    if !c.ok || c.left() != 0 {
        return SBAD;
    }
    p.ok = true;
    p
}

// ---------------------------------------------------------------------------------------------
// Reference ENCODER for client packets (independent of the crate's serde codec): written
// byte by byte from the MQTT 5 packet layouts (3.1 CONNECT, 3.3 PUBLISH, 3.8 SUBSCRIBE,
// 3.10 UNSUBSCRIBE, 3.14 DISCONNECT, 3.4-3.7 acknowledgements, 3.12 PINGREQ).
// The encoder harnesses compare the crate's output with it byte for byte (a general parser over
// the crate's output explodes: CBMC loses constant propagation through copy_from_slice), and
// `c01_ref_*_wellformed` ties it to the reference checker above.
// ---------------------------------------------------------------------------------------------
pub(crate) const WCAP: usize = 56;

/// Byte writer; the first two bytes are reserved for the fixed header (all reference packets have
/// a body shorter than 128 bytes).
pub(crate) struct W {
    pub(crate) b: [u8; WCAP],
    pub(crate) n: usize,
}

impl W {
    pub(crate) fn new() -> Self {
        W { b: [0; WCAP], n: 2 }
    }
    pub(crate) fn u8(&mut self, v: u8) {
        self.b[self.n] = v;
        self.n += 1;
    }
    pub(crate) fn u16(&mut self, v: u16) {
        self.u8((v >> 8) as u8);
        self.u8(v as u8);
    }
    pub(crate) fn u32(&mut self, v: u32) {
        self.u16((v >> 16) as u16);
        self.u16(v as u16);
    }
    pub(crate) fn bin(&mut self, d: &[u8]) {
        self.u16(d.len() as u16);
        self.raw(d);
    }
    pub(crate) fn raw(&mut self, d: &[u8]) {
        let mut i = 0;
        while i < d.len() {
            self.u8(d[i]);
            i += 1;
        }
    }
    /// Fill in the fixed header; returns the total packet length.
    pub(crate) fn finish(&mut self, first: u8) -> usize {
        self.b[0] = first;
        self.b[1] = (self.n - 2) as u8;
        self.n
    }
}

macro_rules! cmp_bytes {
    ($got:expr, $want:expr, $n:expr; $($i:literal)*) => {
        $( if $i < $n && $got[$i] != $want[$i] { return false; } )*
    };
}

/// `got` must equal the first `n` bytes of `want` (unrolled: no loop, no unwinding bound).
pub(crate) fn same_bytes(got: &[u8], want: &[u8; WCAP], n: usize) -> bool {
    if got.len() != n || n > WCAP {
        return false;
    }
    cmp_bytes!(got, want, n; 0 1 2 3 4 5 6 7 8 9 10 11 12 13 14 15 16 17 18 19 20 21 22 23 24 25 26 27 28 29 30 31 32 33 34 35 36 37 38 39 40 41 42 43 44 45 46 47 48 49 50 51 52 53 54 55);
    true
}

/// Trivial stand-in for `core::str::from_utf8` for harnesses in which no real string is decoded
/// (the call is only reachable on paths CBMC cannot prune syntactically).
pub(crate) fn stub_from_utf8_unreached(v: &[u8]) -> Result<&str, core::str::Utf8Error> {
    Ok(unsafe { core::str::from_utf8_unchecked(v) })
}

// ---------------------------------------------------------------------------------------------
// handshake slicing (projection only; see lib/overlay.py PROJECTION_RULES)
// ---------------------------------------------------------------------------------------------
pub(crate) static mut CUT_AFTER_CONNECT: bool = false;
pub(crate) fn cut_after_connect() -> bool {
    unsafe { CUT_AFTER_CONNECT }
}

pub(crate) static mut CK_PROPS: [Property<'static>; 2] = [Property::ReceiveMaximum(1), Property::ReceiveMaximum(1)];
pub(crate) static mut CK_NPROPS: usize = 0;
pub(crate) static mut CK_ITER_CALLS: u8 = 0;

/// Stands in for `ack.properties.iter()` in the projected handshake: yields the ghost properties.
#[allow(static_mut_refs)]
pub(crate) fn stub_props_iter<'p>(_p: &'p crate::Properties<'_>) -> impl Iterator<Item = Result<Property<'static>, crate::PeerError>> + 'p {
    unsafe {
        CK_ITER_CALLS += 1;
        CK_PROPS[..CK_NPROPS].iter().map(|p| Ok(p.clone()))
    }
}
