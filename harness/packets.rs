//! L1 harnesses on packets.rs: every client packet encoder against an independent byte-level
//! reference encoder (C09 field fidelity), which in turn is checked by the independent MQTT 5
//! well-formedness checker (C01).  A general parser run directly over the crate's output does not
//! finish (CBMC loses constant propagation through copy_from_slice; measured > 300 s for a
//! 13-byte UNSUBSCRIBE), a byte-for-byte comparison against reference bytes does.
use super::*;
use crate::ser::MqttSerializer;
use crate::types::{RetainHandling, SubscriptionOptions};
use crate::verif_common::{check_client_packet, same_bytes, W};
use crate::QoS;

fn any_qos() -> QoS {
    match kani::any::<u8>() % 3 {
        0 => QoS::AtMostOnce,
        1 => QoS::AtLeastOnce,
        _ => QoS::ExactlyOnce,
    }
}

fn ascii2() -> [u8; 2] {
    let b: [u8; 2] = kani::any();
    kani::assume(b[0] < 0x80 && b[1] < 0x80);
    b
}

// ---------------------------------------------------------------------------------------------
// CONNECT
// ---------------------------------------------------------------------------------------------
struct ConnectFields {
    keepalive: u16,
    clean: bool,
    mps: u32,
    sei: u32,
    rm: u16,
    id: [u8; 2],
    wdata: [u8; 2],
    wdelay: u32,
    wq: QoS,
    wret: bool,
    pw: [u8; 2],
}

fn any_connect() -> ConnectFields {
    ConnectFields {
        keepalive: kani::any(),
        clean: kani::any(),
        mps: kani::any(),
        sei: kani::any(),
        rm: kani::any(),
        id: ascii2(),
        wdata: kani::any(),
        wdelay: kani::any(),
        wq: any_qos(),
        wret: kani::any(),
        pw: kani::any(),
    }
}

/// MQTT 5 section 3.1
fn ref_connect(f: &ConnectFields, with_will: bool, with_auth: bool) -> (W, usize) {
    let mut w = W::new();
    w.bin(b"MQTT");
    w.u8(5);
    let mut flags = 0u8;
    if f.clean {
        flags |= 0x02;
    }
    if with_will {
        flags |= 0x04 | ((f.wq as u8) << 3);
        if f.wret {
            flags |= 0x20;
        }
    }
    if with_auth {
        flags |= 0xC0;
    }
    w.u8(flags);
    w.u16(f.keepalive);
    w.u8(13); // property length
    w.u8(0x27);
    w.u32(f.mps);
    w.u8(0x11);
    w.u32(f.sei);
    w.u8(0x21);
    w.u16(f.rm);
    w.bin(&f.id);
    if with_will {
        w.u8(5);
        w.u8(0x18);
        w.u32(f.wdelay);
        w.bin(b"w");
        w.bin(&f.wdata);
    }
    if with_auth {
        w.bin(b"u");
        w.bin(&f.pw);
    }
    let n = w.finish(0x10);
    (w, n)
}

fn connect_body(with_will: bool, with_auth: bool) {
    let f = any_connect();
    let props = [Property::MaximumPacketSize(f.mps), Property::SessionExpiryInterval(f.sei), Property::ReceiveMaximum(f.rm)];
    let cid = unsafe { core::str::from_utf8_unchecked(&f.id) };
    let wprops = [Property::WillDelayInterval(f.wdelay)];
    let will = if with_will {
        let mut w = Will::new("w", &f.wdata, &wprops).unwrap().qos(f.wq);
        if f.wret {
            w = w.retained();
        }
        Some(w)
    } else {
        None
    };
    let auth = if with_auth { Some(Auth::new("u", &f.pw)) } else { None };
    let mut buf = [0u8; 64];
    let bytes = MqttSerializer::encode(
        &mut buf,
        &Connect { keepalive: f.keepalive, properties: Properties::from_slice(&props), client_id: Utf8String(cid), auth, will, clean_start: f.clean },
    )
    .unwrap();
    let (w, n) = ref_connect(&f, with_will, with_auth);
    assert!(
        same_bytes(bytes, &w.b, n),
        "C09/CONNECT: encoded bytes differ from the reference encoding (client id, clean start, keep-alive, session expiry, receive maximum, maximum packet size, will QoS/retain/properties/topic/payload, user name, password)"
    );
}

// @harness props=C01,C09,C14,C05 tier=quick layer=L1
// @harness funcs="Serialize for Connect, Properties, Utf8String; MqttSerializer::encode, finalize"
// @harness sym="keep-alive, clean start, Maximum Packet Size, Session Expiry, Receive Maximum, 2-byte client id" bounds="no will, no auth; client id 2 bytes"
#[kani::proof]
#[kani::unwind(8)]
fn c09_enc_connect_plain() {
    connect_body(false, false);
}

// @harness props=C01,C09 tier=quick layer=L1
// @harness funcs="Serialize for Connect, Will, Properties; Will::new/qos/retained"
// @harness sym="as plain + will QoS (3), will retain, will delay, 2 will payload bytes" bounds="will topic 1 byte, payload 2 bytes, 1 will property"
#[kani::proof]
#[kani::unwind(8)]
fn c09_enc_connect_will() {
    connect_body(true, false);
}

// @harness props=C01,C09 tier=quick layer=L1
// @harness funcs="Serialize for Connect (auth), BinaryData"
// @harness sym="as plain + 2 password bytes" bounds="user name 1 byte, password 2 bytes"
#[kani::proof]
#[kani::unwind(8)]
fn c09_enc_connect_auth() {
    connect_body(false, true);
}

// @harness props=C01,C09 tier=thorough layer=L1
// @harness funcs="Serialize for Connect (will + auth)"
// @harness sym="all CONNECT fields" bounds="will and auth together"
#[kani::proof]
#[kani::unwind(8)]
fn c09_enc_connect_will_auth() {
    connect_body(true, true);
}

// @harness props=C01 tier=quick layer=L1
// @harness funcs="(oracle consistency) verif_common reference CONNECT encoder vs check_client_packet"
// @harness sym="all CONNECT fields" bounds="variant plain, as c09_enc_connect_plain"
#[kani::proof]
#[kani::unwind(8)]
fn c01_ref_connect_wellformed_plain() {
    ref_connect_ok(false, false);
}

// @harness props=C01 tier=quick layer=L1
// @harness funcs="(oracle consistency) verif_common reference CONNECT encoder vs check_client_packet"
// @harness sym="all CONNECT fields" bounds="variant will, as c09_enc_connect_will"
#[kani::proof]
#[kani::unwind(8)]
fn c01_ref_connect_wellformed_will() {
    ref_connect_ok(true, false);
}

// @harness props=C01 tier=quick layer=L1
// @harness funcs="(oracle consistency) verif_common reference CONNECT encoder vs check_client_packet"
// @harness sym="all CONNECT fields" bounds="variant auth, as c09_enc_connect_auth"
#[kani::proof]
#[kani::unwind(8)]
fn c01_ref_connect_wellformed_auth() {
    ref_connect_ok(false, true);
}

// @harness props=C01 tier=quick layer=L1
// @harness funcs="(oracle consistency) verif_common reference CONNECT encoder vs check_client_packet"
// @harness sym="all CONNECT fields" bounds="variant will_auth, as c09_enc_connect_will_auth"
#[kani::proof]
#[kani::unwind(8)]
fn c01_ref_connect_wellformed_will_auth() {
    ref_connect_ok(true, true);
}

fn ref_connect_ok(with_will: bool, with_auth: bool) {
    let f = any_connect();
    let (w, n) = ref_connect(&f, with_will, with_auth);
    let p = check_client_packet(&w.b[..n], 3, 0);
    assert!(p.ok && p.typ == 1, "C01/CONNECT: reference bytes are a well-formed MQTT 5 CONNECT (protocol name/level, reserved flag 0, will flags consistent, legal properties, exact remaining length)");
}

// ---------------------------------------------------------------------------------------------
// PUBLISH
// ---------------------------------------------------------------------------------------------
struct PubFields {
    topic: [u8; 2],
    id: u16,
    retain: bool,
    dup: bool,
    mei: u32,
    corr: [u8; 2],
    payload: [u8; 3],
    plen: usize,
}

fn any_pub(qos: QoS) -> PubFields {
    let id: u16 = kani::any();
    kani::assume(id != 0); // next_packet_id never yields 0 (c07_next_id_nonzero)
    let plen: usize = kani::any();
    kani::assume(plen <= 3);
    PubFields {
        topic: ascii2(),
        id,
        retain: kani::any(),
        dup: if qos == QoS::AtMostOnce { false } else { kani::any() },
        mei: kani::any(),
        corr: kani::any(),
        payload: kani::any(),
        plen,
    }
}

/// MQTT 5 section 3.3
fn ref_publish(f: &PubFields, qos: QoS, props_variant: u8) -> (W, usize) {
    let mut w = W::new();
    w.bin(&f.topic);
    if qos != QoS::AtMostOnce {
        w.u16(f.id);
    }
    match props_variant {
        0 => w.u8(0),
        1 => w.u8(12),
        _ => {
            w.u8(17);
            w.u8(0x09);
            w.bin(&f.corr);
        }
    }
    if props_variant >= 1 {
        w.u8(0x02);
        w.u32(f.mei);
        w.u8(0x26);
        w.bin(b"k");
        w.bin(b"v");
    }
    w.raw(&f.payload[..f.plen]);
    let first = 0x30 | ((f.dup as u8) << 3) | ((qos as u8) << 1) | (f.retain as u8);
    let n = w.finish(first);
    (w, n)
}

fn publish_body(qos: QoS, props_variant: u8) {
    let f = any_pub(qos);
    let topic = unsafe { core::str::from_utf8_unchecked(&f.topic) };
    let user = [Property::MessageExpiryInterval(f.mei), Property::UserProperty("k", "v")];
    let properties = match props_variant {
        0 => Properties::from_slice(&[]),
        1 => Properties::from_slice(&user),
        _ => Properties::from_slice(&user).with_correlation(&f.corr),
    };
    let header = PublishHeader {
        topic: Utf8String(topic),
        packet_id: if qos == QoS::AtMostOnce { None } else { Some(f.id) },
        properties,
        retain: if f.retain { Retain::Retained } else { Retain::NotRetained },
        qos,
        dup: f.dup,
    };
    let mut buf = [0u8; 48];
    let (offset, bytes) = MqttSerializer::encode_publish_with_offset(&mut buf, &header, &f.payload[..f.plen]).unwrap();
    assert!(offset == 3, "C09/PUBLISH: one-byte remaining length => header right-aligned at offset 3");
    let (w, n) = ref_publish(&f, qos, props_variant);
    assert!(same_bytes(bytes, &w.b, n), "C09/PUBLISH: encoded bytes differ from the reference encoding (QoS, retain, DUP, topic, identifier, every property, payload)");
    kani::cover!(f.plen == 0);
    kani::cover!(f.plen == 3);
}

// @harness props=C01,C09 tier=quick layer=L1
// @harness funcs="MqttSerializer::encode_publish_with_offset, Serialize for PublishHeader, ToPayload for &[u8], PublishHeader::fixed_header_flags, finalize"
// @harness sym="2-byte topic, retain, 0..3 payload bytes" bounds="QoS 0, no properties"
#[kani::proof]
#[kani::unwind(8)]
fn c09_enc_publish_q0() {
    publish_body(QoS::AtMostOnce, 0);
}

// @harness props=C01,C09 tier=quick layer=L1
// @harness funcs="MqttSerializer::encode_publish_with_offset, Serialize for PublishHeader, Properties (Slice)"
// @harness sym="topic, packet id, retain, DUP, message expiry, payload" bounds="QoS 1, properties [MessageExpiryInterval, UserProperty]"
#[kani::proof]
#[kani::unwind(8)]
fn c09_enc_publish_q1_props() {
    publish_body(QoS::AtLeastOnce, 1);
}

// @harness props=C01,C09 tier=quick layer=L1
// @harness funcs="MqttSerializer::encode_publish_with_offset, Serialize for PublishHeader"
// @harness sym="topic, packet id, retain, DUP, payload" bounds="QoS 2, no properties"
#[kani::proof]
#[kani::unwind(8)]
fn c09_enc_publish_q2() {
    publish_body(QoS::ExactlyOnce, 0);
}

// @harness props=C01 tier=thorough layer=L1
// @harness funcs="(oracle consistency) reference PUBLISH encoder vs check_client_packet"
// @harness sym="all PUBLISH fields; payload 2 bytes" bounds="variant q0, as c09_enc_publish_q0"
#[kani::proof]
#[kani::unwind(8)]
fn c01_ref_publish_wellformed_q0() {
    ref_publish_ok(QoS::AtMostOnce, 0);
}

// @harness props=C01 tier=quick layer=L1
// @harness funcs="(oracle consistency) reference PUBLISH encoder vs check_client_packet"
// @harness sym="all PUBLISH fields; payload 2 bytes" bounds="variant q1_props, as c09_enc_publish_q1_props"
#[kani::proof]
#[kani::unwind(8)]
fn c01_ref_publish_wellformed_q1_props() {
    ref_publish_ok(QoS::AtLeastOnce, 1);
}

// @harness props=C01 tier=thorough layer=L1
// @harness funcs="(oracle consistency) reference PUBLISH encoder vs check_client_packet"
// @harness sym="all PUBLISH fields; payload 2 bytes" bounds="variant q2, as c09_enc_publish_q2"
#[kani::proof]
#[kani::unwind(8)]
fn c01_ref_publish_wellformed_q2() {
    ref_publish_ok(QoS::ExactlyOnce, 0);
}

// @harness props=C01 tier=thorough layer=L1
// @harness funcs="(oracle consistency) reference PUBLISH encoder vs check_client_packet"
// @harness sym="all PUBLISH fields; payload 2 bytes" bounds="variant q1_correlation, as c09_enc_publish_q1_correlation"
#[kani::proof]
#[kani::unwind(8)]
fn c01_ref_publish_wellformed_q1_correlation() {
    ref_publish_ok(QoS::AtLeastOnce, 2);
}

fn ref_publish_ok(qos: QoS, v: u8) {
    let mut f = any_pub(qos);
    f.plen = 2; // concrete: the payload is opaque to well-formedness; a symbolic length did not finish in 300 s
    let (w, n) = ref_publish(&f, qos, v);
    let p = check_client_packet(&w.b[..n], 3, 0);
    assert!(p.ok && p.typ == 3, "C01/PUBLISH: reference bytes are a well-formed MQTT 5 PUBLISH");
    assert!(qos == QoS::AtMostOnce || p.packet_id == f.id);
}

// ---------------------------------------------------------------------------------------------
// SUBSCRIBE / UNSUBSCRIBE
// ---------------------------------------------------------------------------------------------
fn any_options() -> (SubscriptionOptions, u8) {
    let q = any_qos();
    let nl: bool = kani::any();
    let rap: bool = kani::any();
    let rh = match kani::any::<u8>() % 3 {
        0 => RetainHandling::Immediately,
        1 => RetainHandling::IfSubscriptionDoesNotExist,
        _ => RetainHandling::Never,
    };
    let mut o = SubscriptionOptions::default().maximum_qos(q).retain_behavior(rh);
    if nl {
        o = o.ignore_local_messages();
    }
    if rap {
        o = o.retain_as_published();
    }
    // MQTT 5 section 3.8.3.1: bits 0-1 maximum QoS, 2 no local, 3 retain as published, 4-5 retain handling
    let want = (q as u8) | ((nl as u8) << 2) | ((rap as u8) << 3) | ((rh as u8) << 4);
    (o, want)
}

fn ref_subscribe(id: u16, t2: &[u8; 2], w1: u8, w2: u8) -> (W, usize) {
    let mut w = W::new();
    w.u16(id);
    w.u8(7);
    w.u8(0x26);
    w.bin(b"k");
    w.bin(b"v");
    w.bin(b"a");
    w.u8(w1);
    w.bin(t2);
    w.u8(w2);
    let n = w.finish(0x82);
    (w, n)
}

// @harness props=C01,C09 tier=quick layer=L1
// @harness funcs="Serialize for Subscribe, TopicFilter, SubscriptionOptions; ControlPacket::fixed_header_flags"
// @harness sym="packet id, options of both filters (QoS, no-local, retain-as-published, retain handling), 2-byte filter" bounds="2 filters (1 and 2 bytes), user property"
#[kani::proof]
#[kani::unwind(8)]
fn c09_enc_subscribe_two_filters() {
    let id: u16 = kani::any();
    kani::assume(id != 0);
    let (o1, w1) = any_options();
    let (o2, w2) = any_options();
    let tb = ascii2();
    let t2 = unsafe { core::str::from_utf8_unchecked(&tb) };
    let topics = [TopicFilter::new("a").options(o1), TopicFilter::new(t2).options(o2)];
    let props = [Property::UserProperty("k", "v")];
    let mut buf = [0u8; 40];
    let bytes = MqttSerializer::encode(&mut buf, &Subscribe { packet_id: id, dup: false, properties: Properties::from_slice(&props), topics: &topics }).unwrap();
    let (w, n) = ref_subscribe(id, &tb, w1, w2);
    assert!(same_bytes(bytes, &w.b, n), "C09/SUBSCRIBE: encoded bytes differ from the reference encoding (flags 0010, id, properties, each filter with maximum QoS / no-local / retain-as-published / retain handling)");
}

// @harness props=C01 tier=quick layer=L1
// @harness funcs="(oracle consistency) reference SUBSCRIBE/UNSUBSCRIBE encoders vs check_client_packet"
// @harness sym="id, filter bytes, option bytes of legal form" bounds="2 filters"
#[kani::proof]
#[kani::unwind(8)]
fn c01_ref_subscribe_unsubscribe_wellformed() {
    let id: u16 = kani::any();
    kani::assume(id != 0);
    let (_, w1) = any_options();
    let (_, w2) = any_options();
    let tb = ascii2();
    let (w, n) = ref_subscribe(id, &tb, w1, w2);
    let p = check_client_packet(&w.b[..n], 2, 2);
    assert!(p.ok && p.typ == 8 && p.packet_id == id, "C01/SUBSCRIBE: reference bytes are well-formed (flags 0010, reserved option bits clear)");
    let (w, n) = ref_unsubscribe(id, &tb);
    let p = check_client_packet(&w.b[..n], 2, 2);
    assert!(p.ok && p.typ == 10 && p.packet_id == id, "C01/UNSUBSCRIBE: reference bytes are well-formed");
}

// @harness props=C01,C09 tier=quick layer=L1
// @harness funcs="Serialize for Subscribe with SubscriptionIdentifier (Varint)"
// @harness sym="packet id, subscription identifier (any u32), options" bounds="1 filter of 1 byte; out-of-range identifier must fail"
#[kani::proof]
#[kani::unwind(8)]
fn c09_enc_subscribe_subscription_id() {
    let id: u16 = kani::any();
    kani::assume(id != 0);
    let (o1, w1) = any_options();
    let sid: u32 = kani::any();
    let topics = [TopicFilter::new("a").options(o1)];
    let props = [Property::SubscriptionIdentifier(sid)];
    let mut buf = [0u8; 24];
    let r = MqttSerializer::encode(&mut buf, &Subscribe { packet_id: id, dup: false, properties: Properties::from_slice(&props), topics: &topics });
    match r {
        Err(_) => assert!(sid > 0x0FFF_FFFF, "C09/SUBSCRIBE: an in-range subscription identifier is encodable"),
        Ok(bytes) => {
            assert!(sid <= 0x0FFF_FFFF, "C09/SUBSCRIBE: an identifier above 28 bits is refused, not truncated");
            let lb: usize = if sid < 0x80 { 1 } else if sid < 0x4000 { 2 } else if sid < 0x20_0000 { 3 } else { 4 };
            assert!(bytes.len() == 2 + 2 + 1 + 1 + lb + 3 + 1, "C09/SUBSCRIBE: total length");
            assert!(bytes[0] == 0x82 && bytes[1] as usize == bytes.len() - 2 && bytes[2] == (id >> 8) as u8 && bytes[3] == id as u8, "C09/SUBSCRIBE: header and id");
            assert!(bytes[4] as usize == 1 + lb && bytes[5] == 0x0B, "C09/SUBSCRIBE: property length and identifier");
            let mut c = crate::verif_common::Cursor::new(&bytes[6..]);
            assert!(c.varint() == sid && c.ok && c.i == lb, "C09/SUBSCRIBE: subscription identifier value, canonical");
            let k = 6 + lb;
            assert!(bytes[k] == 0 && bytes[k + 1] == 1 && bytes[k + 2] == b'a' && bytes[k + 3] == w1, "C09/SUBSCRIBE: filter follows the property block");
        }
    }
    kani::cover!(sid > 0x1F_FFFF && sid <= 0x0FFF_FFFF);
}

fn ref_unsubscribe(id: u16, t2: &[u8; 2]) -> (W, usize) {
    let mut w = W::new();
    w.u16(id);
    w.u8(7);
    w.u8(0x26);
    w.bin(b"k");
    w.bin(b"v");
    w.bin(b"a");
    w.bin(t2);
    let n = w.finish(0xA2);
    (w, n)
}

// @harness props=C01,C09 tier=quick layer=L1
// @harness funcs="Serialize for Unsubscribe, TopicFilters"
// @harness sym="packet id, 2-byte filter" bounds="2 filters, user property"
#[kani::proof]
#[kani::unwind(8)]
fn c09_enc_unsubscribe() {
    let id: u16 = kani::any();
    kani::assume(id != 0);
    let tb = ascii2();
    let t2 = unsafe { core::str::from_utf8_unchecked(&tb) };
    let topics = ["a", t2];
    let props = [Property::UserProperty("k", "v")];
    let mut buf = [0u8; 40];
    let bytes = MqttSerializer::encode(&mut buf, &Unsubscribe { packet_id: id, dup: false, properties: Properties::from_slice(&props), topics: &topics }).unwrap();
    let (w, n) = ref_unsubscribe(id, &tb);
    assert!(same_bytes(bytes, &w.b, n), "C09/UNSUBSCRIBE: encoded bytes differ from the reference encoding (flags 0010, id, properties, filters in order)");
}

// ---------------------------------------------------------------------------------------------
// DISCONNECT, PINGREQ
// ---------------------------------------------------------------------------------------------
// @harness props=C01,C09 tier=quick layer=L1
// @harness funcs="Serialize for Disconnect, Disconnect::success/with_reason/with_properties, PingReq"
// @harness sym="reason code (all 256 wire values), session expiry value" bounds="forms: bare, reason only, reason + [SessionExpiryInterval, ReasonString(1 byte)]"
#[kani::proof]
#[kani::unwind(8)]
fn c09_enc_disconnect_pingreq() {
    let mut buf = [0u8; 9];
    let b = MqttSerializer::encode(&mut buf, &Disconnect::success()).unwrap();
    assert!(b.len() == 2 && b[0] == 0xE0 && b[1] == 0, "C09/DISCONNECT: bare form");
    let code: u8 = kani::any();
    let rc = ReasonCode::from(code);
    let wire: u8 = rc.into();
    let mut buf = [0u8; 9];
    let b = MqttSerializer::encode(&mut buf, &Disconnect::with_reason(rc)).unwrap();
    assert!(b.len() == 3 && b[0] == 0xE0 && b[1] == 1 && b[2] == wire, "C09/DISCONNECT: reason form");
    let sei: u32 = kani::any();
    let props = [Property::SessionExpiryInterval(sei), Property::ReasonString("r")];
    let mut buf2 = [0u8; 24];
    let b = MqttSerializer::encode(&mut buf2, &Disconnect::with_reason(rc).with_properties(&props)).unwrap();
    let mut w = W::new();
    w.u8(wire);
    w.u8(9);
    w.u8(0x11);
    w.u32(sei);
    w.u8(0x1F);
    w.bin(b"r");
    let n = w.finish(0xE0);
    assert!(same_bytes(b, &w.b, n), "C09/DISCONNECT: reason and properties");
    assert!(check_client_packet(&w.b[..n], 2, 0).ok, "C01/DISCONNECT: reference bytes well-formed");
    let mut buf4 = [0u8; 24];
    let b = MqttSerializer::encode(&mut buf4, &Disconnect::success().with_properties(&props)).unwrap();
    assert!(b.len() == n && b[2] == 0, "C09/DISCONNECT: properties imply an explicit success reason");
    let mut buf3 = [0u8; 9];
    let b = MqttSerializer::encode(&mut buf3, &PingReq).unwrap();
    assert!(b.len() == 2 && b[0] == 0xC0 && b[1] == 0, "C09/PINGREQ");
    assert!(check_client_packet(&[0xC0, 0], 0, 0).ok && check_client_packet(&[0xE0, 0], 0, 0).ok && check_client_packet(&[0xE0, 1, wire], 0, 0).ok);
}

// ---------------------------------------------------------------------------------------------
// too-small buffers: error, never a panic or a truncated packet
// ---------------------------------------------------------------------------------------------
// @harness props=C09 tier=quick layer=L1
// @harness funcs="MqttSerializer::encode_publish_with_offset / push / push_bytes / commit / finalize on short buffers"
// @harness sym="buffer length 0..=15, packet id, payload" bounds="QoS 1 PUBLISH needing 14 bytes (5 header reserve + 9 body)"
#[kani::proof]
#[kani::unwind(8)]
fn c09_small_buffer_publish() {
    let n: usize = kani::any();
    kani::assume(n <= 15);
    let mut buf = [0u8; 16];
    let payload: [u8; 2] = kani::any();
    let header = PublishHeader {
        topic: Utf8String("ab"),
        packet_id: Some(kani::any()),
        properties: Properties::from_slice(&[]),
        retain: Retain::NotRetained,
        qos: QoS::AtLeastOnce,
        dup: false,
    };
    let r = MqttSerializer::encode_publish_with_offset(&mut buf[..n], &header, &payload[..]);
    match r {
        Ok((off, b)) => {
            assert!(n >= 14, "C09: a PUBLISH was produced from a buffer that cannot hold it");
            assert!(b.len() == 11 && off == 3 && b[1] == 9, "C09: when it fits it is complete");
        }
        Err(e) => {
            assert!(n < 14, "C09: enough buffer must succeed");
            assert!(matches!(e, crate::ser::PubError::Encode(crate::ser::Error::InsufficientMemory)) || matches!(e, crate::ser::PubError::Payload(())), "C09: too little buffer is reported as such");
        }
    }
    kani::cover!(n == 13);
    kani::cover!(n == 14);
    kani::cover!(n == 0);
}

// @harness props=C09 tier=quick layer=L1
// @harness funcs="MqttSerializer::encode on short buffers (SUBSCRIBE)"
// @harness sym="buffer length 0..=15" bounds="SUBSCRIBE needing 12 bytes (5 header reserve + 7 body)"
#[kani::proof]
#[kani::unwind(8)]
fn c09_small_buffer_subscribe() {
    let n: usize = kani::any();
    kani::assume(n <= 15);
    let topics = [TopicFilter::new("a")];
    let mut buf2 = [0u8; 16];
    let r = MqttSerializer::encode(&mut buf2[..n], &Subscribe { packet_id: 7, dup: false, properties: Properties::from_slice(&[]), topics: &topics });
    match r {
        Ok(b) => assert!(n >= 12 && b.len() == 9, "C09: SUBSCRIBE fits only with 5 + 7 bytes"),
        Err(e) => assert!(n < 12 && e == crate::ser::Error::InsufficientMemory, "C09: too little buffer for SUBSCRIBE is InsufficientMemory"),
    }
    kani::cover!(n == 11);
    kani::cover!(n == 12);
}
