//! L1 harnesses on de/packet_reader.rs: framing of the inbound byte stream (C15, C08, C13, C12, C14).
use super::*;

/// Reference framing: total packet length announced by the first bytes of `s`
/// (`None`: not yet known after `have` bytes; `Err`: no valid length within 4 length bytes).
fn ref_total(s: &[u8], have: usize) -> Result<Option<usize>, ()> {
    let mut v = 0usize;
    let mut k = 0usize;
    while k < 4 {
        if 1 + k >= have {
            return Ok(None);
        }
        let c = s[1 + k];
        v |= ((c & 0x7F) as usize) << (7 * k);
        if c & 0x80 == 0 {
            return Ok(Some(2 + k + v));
        }
        k += 1;
    }
    Err(())
}

/// Drive a reader over `stream` exactly like `fill_packet_reader` does, with a symbolic chunking.
/// Returns (error?, bytes consumed, packet available).
fn feed<const N: usize>(reader: &mut PacketReader<'_>, stream: &[u8; N]) -> (bool, usize, bool) {
    let mut off = 0usize;
    let mut steps = 0;
    while steps <= N {
        if reader.packet_available() {
            break;
        }
        let win = match reader.receive_buffer() {
            Ok(w) => w,
            Err(_) => return (true, off, false),
        };
        if win.is_empty() || off >= N {
            break;
        }
        let want = win.len();
        let k: usize = kani::any();
        kani::assume(k >= 1 && k <= want && k <= N - off);
        let mut i = 0;
        while i < k {
            win[i] = stream[off + i];
            i += 1;
        }
        reader.commit(k);
        off += k;
        steps += 1;
    }
    (false, off, reader.packet_available())
}

// @harness props=C15,C13,C08 tier=quick layer=L1
// @harness funcs="PacketReader::receive_buffer, commit, probe_fixed_header, packet_available"
// @harness sym="6 stream bytes; two independent chunkings (every read delivers 1..=requested bytes)" bounds="6-byte stream, 6-byte receive buffer; relational: two readers on the same stream"
#[kani::proof]
#[kani::unwind(8)]
fn c15_reader_chunking_independent() {
    let stream: [u8; 6] = kani::any();
    let mut b1 = [0u8; 6];
    let mut b2 = [0u8; 6];
    let mut r1 = PacketReader::new(&mut b1);
    let mut r2 = PacketReader::new(&mut b2);
    let a = feed(&mut r1, &stream);
    let b = feed(&mut r2, &stream);
    assert!(a.0 == b.0, "C15: whether the stream is rejected depends on how reads were split");
    if !a.0 {
        assert!(a.2 == b.2, "C15: packet availability depends on how reads were split");
        assert!(a.1 == b.1, "C15: the number of bytes consumed depends on how reads were split");
    }
    if !a.0 && a.2 {
        assert!(r1.packet_length == r2.packet_length, "C15: framed length differs");
        let n = a.1;
        let mut i = 0;
        while i < 6 {
            if i < n {
                assert!(r1.buffer[i] == r2.buffer[i] && r1.buffer[i] == stream[i], "C15: assembled packet bytes differ from the stream");
            }
            i += 1;
        }
    }
    kani::cover!(!a.0 && a.2 && a.1 == 4);
    kani::cover!(!a.0 && a.2 && a.1 == 2);
    kani::cover!(a.0);
}

// @harness props=C15,C13,C08,C14 tier=quick layer=L1
// @harness funcs="PacketReader::receive_buffer, commit, probe_fixed_header, packet_available"
// @harness sym="8 stream bytes, chunking" bounds="8-byte stream into a 6-byte receive buffer (oversize packets possible)"
#[kani::proof]
#[kani::unwind(10)]
fn c15_reader_requests_exactly_missing() {
    let stream: [u8; 8] = kani::any();
    let mut buf = [0u8; 6];
    let mut reader = PacketReader::new(&mut buf);
    let mut off = 0usize;
    let mut steps = 0;
    let mut failed = false;
    while steps <= 8 {
        if reader.packet_available() {
            break;
        }
        let known = ref_total(&stream, off);
        let cap = 6usize;
        match reader.receive_buffer() {
            Err(_) => {
                // rejected: either no length within 4 bytes, or the packet cannot fit
                match known {
                    Err(()) => {}
                    Ok(Some(total)) => assert!(total > cap, "C08: a packet that fits the receive buffer is rejected by the framer"),
                    Ok(None) => assert!(off + 1 > cap, "C08: framer gave up while the header is incomplete and room is left"),
                }
                failed = true;
                break;
            }
            Ok(win) => {
                match known {
                    Ok(Some(total)) => {
                        assert!(total <= cap, "C14: a packet larger than the receive buffer must be refused before its body is requested");
                        assert!(win.len() == total - off, "C15: once the length is known the reader asks for exactly the missing bytes");
                    }
                    Ok(None) => assert!(win.len() == 1, "C15: while the length is unknown the reader asks for one byte at a time"),
                    Err(()) => assert!(off < 5 && win.len() == 1, "C08: a fifth length byte is never requested"),
                }
                if win.is_empty() {
                    break;
                }
                let want = win.len();
                let k: usize = kani::any();
                kani::assume(k >= 1 && k <= want && k <= 8 - off);
                let mut i = 0;
                while i < k {
                    win[i] = stream[off + i];
                    i += 1;
                }
                reader.commit(k);
                off += k;
            }
        }
        steps += 1;
    }
    assert!(reader.read_bytes <= 6, "C08: the reader never holds more bytes than its buffer");
    if !failed && reader.packet_available() {
        let total = ref_total(&stream, off).unwrap().unwrap();
        assert!(reader.packet_length == Some(total) && off == total, "C15: exactly one packet was consumed from the stream, not a byte more");
    }
    kani::cover!(failed);
    kani::cover!(!failed && reader.packet_available() && off == 6);
}

// @harness props=C12,C13 tier=quick layer=L1
// @harness funcs="PacketReader::reset, take_packet"
// @harness sym="read_bytes, packet_length (arbitrary prior state), buffer bytes" bounds="8-byte buffer"
#[kani::proof]
#[kani::unwind(6)]
fn c12_reader_reset() {
    let mut buf: [u8; 8] = kani::any();
    let mut reader = PacketReader::new(&mut buf);
    reader.read_bytes = kani::any();
    reader.packet_length = if kani::any() { Some(kani::any()) } else { None };
    kani::assume(reader.read_bytes <= 8);
    reader.reset();
    assert!(reader.read_bytes == 0 && reader.packet_length.is_none(), "C12: reset forgets any partial inbound packet");
    assert!(!reader.packet_available());
    let w = reader.receive_buffer().unwrap();
    assert!(w.len() == 1, "C12: after reset the reader starts a new packet at offset 0");
}

// @harness props=C08,C04 tier=quick layer=L1
// @harness funcs="PacketReader::take_packet, received_packet, ReceivedPacket::from_buffer"
// @harness sym="payload byte, packet id" bounds="a complete 6-byte PUBACK followed by reader reuse"
// @harness assumes="core::str::from_utf8 replaced by utf8_ok"
#[kani::proof]
#[kani::unwind(8)]
#[kani::stub(core::str::from_utf8, crate::verif_common::stub_from_utf8)]
fn c08_reader_take_packet_resets() {
    let id: u16 = kani::any();
    let mut buf = [0x40, 0x04, (id >> 8) as u8, id as u8, 0x10, 0x00, 0, 0];
    let mut reader = PacketReader::new(&mut buf);
    reader.commit(2);
    let w = reader.receive_buffer().unwrap();
    assert!(w.len() == 4);
    reader.commit(4);
    assert!(reader.packet_available());
    {
        let (len, pkt) = reader.take_packet().unwrap();
        assert!(len == 6);
        assert!(matches!(pkt, ReceivedPacket::PubAck(a) if a.packet_id == id), "C08: the framed packet is decoded as sent");
    }
    assert!(!reader.packet_available() && reader.read_bytes == 0, "C13: taking a packet leaves the reader ready for the next one");
    assert!(reader.take_packet().is_err(), "C08: no packet can be taken twice");
}
