//! L3c harnesses on session/drive.rs: the REAL coroutines of the small awaiting functions, polled by
//! hand, against the abstract outbound (x_outbound.rs) and a symbolic transport:
//! every write accepts 1..=len bytes, fails, or is pending once; every flush completes, fails or is
//! pending once; after every `Pending` the future is either dropped (cancellation) or polled again.
#![allow(static_mut_refs)]
use super::*;
use crate::mqtt_client::outbound::verif_x_outbound as g;
use crate::mqtt_client::outbound::{write_all, write_packet, Outbound};
use crate::mqtt_client::ConnectEvent;
use crate::verif_common::{poll_once, YieldOnce};
use crate::{Buffers, ConfigBuilder, PeerError, ResourceError, Session};
use core::task::Poll;
use embedded_io_async::{ErrorKind, ErrorType, Read, Write};

pub(crate) struct SymIo;

/// Which transport calls are pending once before completing.  Concrete per harness variant: a
/// symbolic choice at every await made each step harness exceed 600 s / 14 GB (CBMC does not fold
/// coroutine state discriminants), concrete patterns finish.
pub(crate) static mut PEND_WRITE: bool = false;
/// when non-zero: the write call with this ordinal (1-based) is pending once, earlier ones are ready
pub(crate) static mut PEND_WRITE_NTH: u8 = 0;
pub(crate) static mut PEND_FLUSH: bool = false;
pub(crate) static mut PEND_READ: bool = false;

impl ErrorType for SymIo {
    type Error = ErrorKind;
}

impl Write for SymIo {
    async fn write(&mut self, buf: &[u8]) -> Result<usize, ErrorKind> {
        unsafe {
            g::IO_WRITES += 1;
            g::IO_LAST_WLEN = buf.len();
            g::IO_LAST_WFIRST = if buf.is_empty() { 0 } else { buf[0] };
        }
        g::log(g::E_IO_WRITE);
        if unsafe { PEND_WRITE || (PEND_WRITE_NTH != 0 && g::IO_WRITES == PEND_WRITE_NTH) } {
            YieldOnce(false).await;
        }
        if kani::any() {
            unsafe { g::IO_ERRS += 1 };
            return Err(ErrorKind::BrokenPipe);
        }
        let k: usize = kani::any();
        kani::assume(k >= 1 && k <= buf.len());
        g::io_record_write(buf, k);
        Ok(k)
    }
    async fn flush(&mut self) -> Result<(), ErrorKind> {
        unsafe { g::IO_FLUSHES += 1 };
        g::log(g::E_IO_FLUSH);
        if unsafe { PEND_FLUSH } {
            YieldOnce(false).await;
        }
        if kani::any() {
            unsafe { g::IO_ERRS += 1 };
            return Err(ErrorKind::BrokenPipe);
        }
        unsafe { g::IO_FLUSH_OK += 1 };
        Ok(())
    }
}

/// inbound script: IN[..IN_LEN], delivered in symbolic chunks; then EOF / error / pending
pub(crate) static mut IN: [u8; 8] = [0; 8];
pub(crate) static mut IN_LEN: usize = 0;
pub(crate) static mut IN_OFF: usize = 0;
pub(crate) static mut IN_EOF: u8 = 0;

impl Read for SymIo {
    async fn read(&mut self, buf: &mut [u8]) -> Result<usize, ErrorKind> {
        unsafe { g::IO_READS += 1 };
        g::log(g::E_IO_READ);
        if unsafe { PEND_READ } {
            YieldOnce(false).await;
        }
        unsafe {
            if IN_OFF >= IN_LEN {
                // script exhausted: end of stream or transport error
                if kani::any() {
                    g::IO_ERRS += 1;
                    return Err(ErrorKind::ConnectionReset);
                }
                IN_EOF += 1;
                return Ok(0);
            }
            let k: usize = kani::any();
            kani::assume(k >= 1 && k <= buf.len() && k <= IN_LEN - IN_OFF);
            let mut i = 0;
            while i < k {
                buf[i] = IN[IN_OFF + i];
                i += 1;
            }
            IN_OFF += k;
            Ok(k)
        }
    }
}

macro_rules! absout_harness {
    ($name:ident, $unwind:literal, $body:block) => {
        #[kani::proof]
        #[kani::unwind($unwind)]
        #[kani::stub(Outbound::next_step, g::st_next_step)]
        #[kani::stub(Outbound::set_control_written, g::st_set_control_written)]
        #[kani::stub(Outbound::set_release_written, g::st_set_release_written)]
        #[kani::stub(Outbound::set_retained_written, g::st_set_retained_written)]
        #[kani::stub(Outbound::flush_control, g::st_flush_control)]
        #[kani::stub(Outbound::flush_release, g::st_flush_release)]
        #[kani::stub(Outbound::flush_retained, g::st_flush_retained)]
        #[kani::stub(Outbound::arm_replay, g::st_arm_replay)]
        #[kani::stub(Outbound::queue_control, g::st_queue_control)]
        #[kani::stub(Outbound::has_pending_pingreq, g::st_has_pending_pingreq)]
        fn $name() $body
    };
}

fn expected_byte(kind: u8, arena: &[u8; 16], off: usize, j: usize) -> u8 {
    match kind {
        g::K_ACK => [0x40, 0x03, 0x00, 0x07, 0x00][j],
        g::K_PING => [0xC0, 0x00][j],
        g::K_REL => [0x62, 0x03, 0x00, 0x09, 0x00][j],
        _ => arena[off + j],
    }
}

/// One `perform_outbound_step` on the entry (kind, written w) with every transport outcome and
/// every cancellation point.
/// phase: 0 = write phase (written < len, symbolic), 1 = flush phase (all written, flush owed)
fn step_body(kind: u8, phase: u8, live: bool, pend_write: bool, pend_flush: bool) {
    g::reset_ghost();
    unsafe {
        PEND_WRITE = pend_write;
        PEND_FLUSH = pend_flush;
    }
    let mut rx = [0u8; 8];
    let mut tx: [u8; 16] = kani::any();
    let arena = tx;
    // keep-alive concrete (the interval arithmetic is c10_send_interval's subject and costs 60 s)
    let mut session = Session::new(ConfigBuilder::new(Buffers::new(&mut rx, &mut tx)).keepalive_interval(60));
    let ret_off = 2usize;
    let len0 = g::kind_len(kind, 4);
    // the phase is concrete per harness: a symbolic Write/Flush state makes CBMC explore both
    // halves of the coroutine on every path (> 600 s)
    let w0: usize = if phase == 0 { kani::any() } else { len0 };
    kani::assume(w0 <= len0 && (phase == 1 || w0 < len0));
    unsafe {
        g::KIND = kind;
        g::RET_OFF = ret_off;
        g::LEN = len0;
        g::WRITTEN = w0;
        g::FLUSH = w0 == len0;
    }
    let pt0: Option<Instant> = None;
    session.runtime.ping_timeout = pt0;
    let mut conn = Connection { session: &mut session, io: SymIo, event: ConnectEvent::Connected, live };
    let step = conn.session.data.outbound.next_step().unwrap();
    let now_t: u64 = kani::any();
    kani::assume(now_t < (1 << 61));
    let now = Instant::from_ticks(now_t);
    let m0 = g::measure();
    let mut result = None;
    let mut dropped = false;
    {
        let fut = conn.perform_outbound_step(step, now);
        let mut fut = core::pin::pin!(fut);
        // The number of polls is fixed by the (concrete) pending pattern: one poll per await that
        // is pending once, plus the final one.  A generic poll loop makes CBMC re-enter the
        // coroutine on infeasible iterations (> 600 s / 14 GB).
        let will_pend = live && ((pend_write && phase == 0) || pend_flush);
        match poll_once(fut.as_mut()) {
            Poll::Ready(r) => result = Some(r),
            Poll::Pending => {
                assert!(will_pend, "harness: unexpected Pending");
                // C13: whenever the coroutine yields, the recorded progress equals what the
                // transport has accepted - dropping the future here loses nothing.
                unsafe {
                    assert!(g::KIND == kind, "C13/yield: the entry is still tracked while its step is suspended");
                    assert!(g::WRITTEN == w0 + g::IO_ACC_N, "C13/yield: bytes were accepted by the transport but not recorded before the coroutine yielded");
                }
                if kani::any() {
                    dropped = true;
                } else {
                    match poll_once(fut.as_mut()) {
                        Poll::Ready(r) => result = Some(r),
                        Poll::Pending => {
                            // only possible with both awaits pending (not instantiated)
                            assert!(pend_write && pend_flush, "harness: second Pending");
                            dropped = true;
                        }
                    }
                }
            }
        }
    }
    unsafe {
        assert!(!g::BAD_TARGET, "C01/step: progress was recorded on an entry other than the one being sent");
        assert!(g::IO_READS == 0, "C01/step: an outbound step reads from the transport");
        assert!(g::IO_WRITES <= 1 && g::IO_FLUSHES <= 1, "C16/step: one step performs at most one write and one flush");
        if !live {
            assert!(g::IO_WRITES == 0 && g::IO_FLUSHES == 0, "C11/step: a dead handle touched the transport");
            assert!(matches!(result, Some(Err(Error::Disconnected))), "C11/step: a dead handle reports Disconnected");
        }
        if g::IO_WRITES == 1 {
            assert!(w0 < len0, "C01/step: a write was issued for a packet that is already complete");
            assert!(g::IO_LAST_WLEN == len0 - w0, "C01/step: the bytes offered to the transport are not exactly the unsent suffix");
            assert!(g::IO_LAST_WFIRST == expected_byte(kind, &arena, ret_off, w0), "C01/step: the write does not start at the recorded offset of the packet");
            let mut i = 0;
            while i < 5 {
                if i < g::IO_ACC_N {
                    assert!(g::IO_ACC[i] == expected_byte(kind, &arena, ret_off, w0 + i), "C01/step: accepted bytes are not the packet's bytes in order");
                }
                i += 1;
            }
        }
        assert!(g::N_SETW == (g::IO_ACC_N > 0) as u8, "C13/step: progress is recorded exactly once per accepted write");
        if g::IO_FLUSHES == 1 {
            assert!(w0 + g::IO_ACC_N == len0, "C01/step: flush issued before the packet was completely written");
        }
        assert!(g::N_FLUSHED <= g::IO_FLUSH_OK, "C02/step: an entry is marked sent without a completed flush");
        if let Some(Err(Error::Transport(_))) = result {
            assert!(!conn.live, "C11/step: a transport error did not latch the handle");
            assert!(g::N_ARM >= 1, "C12/step: a transport error did not arm replay");
            assert!(g::IO_ERRS == 1);
        }
        if let Some(Ok(advanced)) = result {
            if g::IO_FLUSH_OK == 0 {
                assert!(g::KIND == kind && g::WRITTEN == w0 + g::IO_ACC_N, "C15/C13/step: after a partial write the recorded offset is not the total number of bytes accepted so far");
            }
            assert!(advanced, "C16/step: a step on unsent data reports no progress");
            assert!(g::IO_ACC_N >= 1 || g::IO_FLUSH_OK == 1, "C16/step: progress reported without an accepted byte or a completed flush");
            assert!(g::measure() < m0, "C16/step: the remaining-work measure did not decrease");
            assert!(conn.live);
        }
        if live && g::IO_ERRS == 0 && !dropped {
            assert!(matches!(result, Some(Ok(true))), "C16/step: a step over a healthy transport did not complete");
        }
        if g::IO_FLUSH_OK == 1 && matches!(result, Some(Ok(_))) {
            assert!(g::N_FLUSHED == 1 && g::KIND == g::K_NONE, "C02/step: a completely sent packet is marked sent exactly once");
            match conn.session.runtime.keepalive_send_interval() {
                None => assert!(conn.session.runtime.next_ping.is_none(), "C10/step: keep-alive 0 arms no ping"),
                Some(iv) => assert!(conn.session.runtime.next_ping == Some(now + iv), "C10/step: completing a packet re-arms the ping timer at now + interval"),
            }
            if kind == g::K_PING {
                assert!(conn.session.runtime.ping_timeout == Some(now + Duration::from_millis(ROUND_TRIP_TIMEOUT_MS)), "C10/step: a completed PINGREQ arms the round-trip timeout");
            } else {
                assert!(conn.session.runtime.ping_timeout == pt0, "C10/step: only a PINGREQ arms the round-trip timeout");
            }
        }
        if dropped {
            assert!(conn.live == live && g::N_ARM == 0, "C13/step: cancellation is not a disconnect");
            assert!(g::WRITTEN == w0 + g::IO_ACC_N || g::KIND == g::K_NONE, "C13/step: after cancellation the recorded progress equals the accepted bytes");
        }
        // reachability witnesses (written as implications so that a variant to which a witness does
        // not apply satisfies it trivially instead of reporting it unreachable)
        let wr = live && phase == 0;
        kani::cover!(!(wr && pend_flush) || (dropped && g::IO_ACC_N >= 1), "cancelled at the flush await after the write was accepted");
        kani::cover!(!(wr && pend_write) || (dropped && g::IO_ACC_N == 0), "cancelled at the write await");
        kani::cover!(!wr || (matches!(result, Some(Ok(true))) && g::IO_FLUSH_OK == 1 && g::IO_ACC_N >= 1), "wrote the rest and flushed");
        kani::cover!(!(wr && len0 > 1) || (matches!(result, Some(Ok(true))) && g::IO_FLUSH_OK == 0), "partial write");
        kani::cover!(!(live && phase == 1) || (matches!(result, Some(Ok(true))) && g::IO_FLUSH_OK == 1), "flushed");
        kani::cover!(!live || matches!(result, Some(Err(Error::Transport(_)))), "transport error");
    }
}

// @harness props=C01,C13,C11,C16,C10,C02,C15 quick_props=C01,C15,C16,C13 tier=quick layer=L3c unwind=8 heavy=1
// @harness funcs="Connection::perform_outbound_step (Retained), write_current, flush_current, complete_flush, set_written, handle_disconnect; RuntimeState::note_outbound_activity (real coroutines)"
// @harness sym="written offset, every arena byte, clock, per write: error / accepted 1..=n bytes; per flush: error / ok; after each Pending: drop (cancel) or re-poll" bounds="one step on a 4-byte retained packet; write phase, transport ready; <= 3 polls; keep-alive 60 s"
// @harness assumes="transport contract: write never returns Ok(0) for a non-empty buffer; a pending write/flush has accepted nothing (cancel-safe I/O)"
absout_harness!(c01_step_retained_write, 8, { step_body(g::K_RET, 0, true, false, false) });

// @harness props=C01,C13,C11,C16,C10,C02,C15 quick_props=C13 tier=quick layer=L3c unwind=8 heavy=1
// @harness funcs="Connection::perform_outbound_step (Retained), write_current, flush_current, complete_flush, set_written, handle_disconnect; RuntimeState::note_outbound_activity (real coroutines)"
// @harness sym="written offset, every arena byte, clock, per write: error / accepted 1..=n bytes; per flush: error / ok; after each Pending: drop (cancel) or re-poll" bounds="one step on a 4-byte retained packet; write phase, write pending once (cancel point); <= 3 polls; keep-alive 60 s"
// @harness assumes="transport contract: write never returns Ok(0) for a non-empty buffer; a pending write/flush has accepted nothing (cancel-safe I/O)"
absout_harness!(c01_step_retained_write_wpend, 8, { step_body(g::K_RET, 0, true, true, false) });

// @harness props=C01,C13,C11,C16,C10,C02,C15 quick_props=C13 tier=quick layer=L3c unwind=8 heavy=1
// @harness funcs="Connection::perform_outbound_step (Retained), write_current, flush_current, complete_flush, set_written, handle_disconnect; RuntimeState::note_outbound_activity (real coroutines)"
// @harness sym="written offset, every arena byte, clock, per write: error / accepted 1..=n bytes; per flush: error / ok; after each Pending: drop (cancel) or re-poll" bounds="one step on a 4-byte retained packet; write phase, flush pending once (cancel point after accepted bytes); <= 3 polls; keep-alive 60 s"
// @harness assumes="transport contract: write never returns Ok(0) for a non-empty buffer; a pending write/flush has accepted nothing (cancel-safe I/O)"
absout_harness!(c01_step_retained_write_fpend, 8, { step_body(g::K_RET, 0, true, false, true) });

// @harness props=C01,C13,C11,C16,C10,C02,C15 quick_props=C02,C10,C16 tier=quick layer=L3c unwind=8 heavy=1
// @harness funcs="Connection::perform_outbound_step (Retained), write_current, flush_current, complete_flush, set_written, handle_disconnect; RuntimeState::note_outbound_activity (real coroutines)"
// @harness sym="written offset, every arena byte, clock, per write: error / accepted 1..=n bytes; per flush: error / ok; after each Pending: drop (cancel) or re-poll" bounds="one step on a 4-byte retained packet; flush phase, transport ready; <= 3 polls; keep-alive 60 s"
// @harness assumes="transport contract: write never returns Ok(0) for a non-empty buffer; a pending write/flush has accepted nothing (cancel-safe I/O)"
absout_harness!(c01_step_retained_flush, 8, { step_body(g::K_RET, 1, true, false, false) });

// @harness props=C01,C13,C11,C16,C10,C02,C15 quick_props=C13 tier=quick layer=L3c unwind=8 heavy=1
// @harness funcs="Connection::perform_outbound_step (Retained), write_current, flush_current, complete_flush, set_written, handle_disconnect; RuntimeState::note_outbound_activity (real coroutines)"
// @harness sym="written offset, every arena byte, clock, per write: error / accepted 1..=n bytes; per flush: error / ok; after each Pending: drop (cancel) or re-poll" bounds="one step on a 4-byte retained packet; flush phase, flush pending once (cancel point); <= 3 polls; keep-alive 60 s"
// @harness assumes="transport contract: write never returns Ok(0) for a non-empty buffer; a pending write/flush has accepted nothing (cancel-safe I/O)"
absout_harness!(c01_step_retained_flush_fpend, 8, { step_body(g::K_RET, 1, true, false, true) });

// @harness props=C01,C13,C11,C16,C10,C02,C15 quick_props=C11 tier=quick layer=L3c unwind=8 heavy=1
// @harness funcs="Connection::perform_outbound_step (Retained), write_current, flush_current, complete_flush, set_written, handle_disconnect; RuntimeState::note_outbound_activity (real coroutines)"
// @harness sym="written offset, every arena byte, clock, per write: error / accepted 1..=n bytes; per flush: error / ok; after each Pending: drop (cancel) or re-poll" bounds="one step on a 4-byte retained packet; handle already dead; <= 3 polls; keep-alive 60 s"
// @harness assumes="transport contract: write never returns Ok(0) for a non-empty buffer; a pending write/flush has accepted nothing (cancel-safe I/O)"
absout_harness!(c01_step_retained_dead, 8, { step_body(g::K_RET, 0, false, false, false) });

// @harness props=C01,C13,C11,C16,C10,C04,C14 quick_props=C04,C01,C14 tier=quick layer=L3c unwind=8 heavy=1
// @harness funcs="Connection::perform_outbound_step (Control), serialize_control_packet, encode_control_packet (real PUBACK encoder) (real coroutines)"
// @harness sym="written offset, every arena byte, clock, per write: error / accepted 1..=n bytes; per flush: error / ok; after each Pending: drop (cancel) or re-poll" bounds="one step on PUBACK(id 7), 5 bytes; write phase, transport ready; <= 3 polls; keep-alive 60 s"
// @harness assumes="transport contract: write never returns Ok(0) for a non-empty buffer; a pending write/flush has accepted nothing (cancel-safe I/O)"
absout_harness!(c01_step_ack_write, 8, { step_body(g::K_ACK, 0, true, false, false) });

// @harness props=C01,C13,C11,C16,C10,C04,C14 tier=thorough layer=L3c unwind=8 heavy=1
// @harness funcs="Connection::perform_outbound_step (Control), serialize_control_packet, encode_control_packet (real PUBACK encoder) (real coroutines)"
// @harness sym="written offset, every arena byte, clock, per write: error / accepted 1..=n bytes; per flush: error / ok; after each Pending: drop (cancel) or re-poll" bounds="one step on PUBACK(id 7), 5 bytes; write phase, write pending once (cancel point); <= 3 polls; keep-alive 60 s"
// @harness assumes="transport contract: write never returns Ok(0) for a non-empty buffer; a pending write/flush has accepted nothing (cancel-safe I/O)"
absout_harness!(c01_step_ack_write_wpend, 8, { step_body(g::K_ACK, 0, true, true, false) });

// @harness props=C01,C13,C11,C16,C10,C04,C14 tier=thorough layer=L3c unwind=8 heavy=1
// @harness funcs="Connection::perform_outbound_step (Control), serialize_control_packet, encode_control_packet (real PUBACK encoder) (real coroutines)"
// @harness sym="written offset, every arena byte, clock, per write: error / accepted 1..=n bytes; per flush: error / ok; after each Pending: drop (cancel) or re-poll" bounds="one step on PUBACK(id 7), 5 bytes; write phase, flush pending once (cancel point after accepted bytes); <= 3 polls; keep-alive 60 s"
// @harness assumes="transport contract: write never returns Ok(0) for a non-empty buffer; a pending write/flush has accepted nothing (cancel-safe I/O)"
absout_harness!(c01_step_ack_write_fpend, 8, { step_body(g::K_ACK, 0, true, false, true) });

// @harness props=C01,C13,C11,C16,C10,C04,C14 quick_props=C04,C16 tier=quick layer=L3c unwind=8 heavy=1
// @harness funcs="Connection::perform_outbound_step (Control), serialize_control_packet, encode_control_packet (real PUBACK encoder) (real coroutines)"
// @harness sym="written offset, every arena byte, clock, per write: error / accepted 1..=n bytes; per flush: error / ok; after each Pending: drop (cancel) or re-poll" bounds="one step on PUBACK(id 7), 5 bytes; flush phase, transport ready; <= 3 polls; keep-alive 60 s"
// @harness assumes="transport contract: write never returns Ok(0) for a non-empty buffer; a pending write/flush has accepted nothing (cancel-safe I/O)"
absout_harness!(c01_step_ack_flush, 8, { step_body(g::K_ACK, 1, true, false, false) });

// @harness props=C01,C13,C11,C16,C10,C04,C14 tier=thorough layer=L3c unwind=8 heavy=1
// @harness funcs="Connection::perform_outbound_step (Control), serialize_control_packet, encode_control_packet (real PUBACK encoder) (real coroutines)"
// @harness sym="written offset, every arena byte, clock, per write: error / accepted 1..=n bytes; per flush: error / ok; after each Pending: drop (cancel) or re-poll" bounds="one step on PUBACK(id 7), 5 bytes; flush phase, flush pending once (cancel point); <= 3 polls; keep-alive 60 s"
// @harness assumes="transport contract: write never returns Ok(0) for a non-empty buffer; a pending write/flush has accepted nothing (cancel-safe I/O)"
absout_harness!(c01_step_ack_flush_fpend, 8, { step_body(g::K_ACK, 1, true, false, true) });

// @harness props=C01,C13,C11,C16,C10,C04,C14 quick_props=C11 tier=quick layer=L3c unwind=8 heavy=1
// @harness funcs="Connection::perform_outbound_step (Control), serialize_control_packet, encode_control_packet (real PUBACK encoder) (real coroutines)"
// @harness sym="written offset, every arena byte, clock, per write: error / accepted 1..=n bytes; per flush: error / ok; after each Pending: drop (cancel) or re-poll" bounds="one step on PUBACK(id 7), 5 bytes; handle already dead; <= 3 polls; keep-alive 60 s"
// @harness assumes="transport contract: write never returns Ok(0) for a non-empty buffer; a pending write/flush has accepted nothing (cancel-safe I/O)"
absout_harness!(c01_step_ack_dead, 8, { step_body(g::K_ACK, 0, false, false, false) });

// @harness props=C01,C13,C10,C16 quick_props=C10 tier=quick layer=L3c unwind=8 heavy=1
// @harness funcs="Connection::perform_outbound_step (Control PingReq), complete_flush (real coroutines)"
// @harness sym="written offset, every arena byte, clock, per write: error / accepted 1..=n bytes; per flush: error / ok; after each Pending: drop (cancel) or re-poll" bounds="one step on PINGREQ, 2 bytes; write phase, transport ready; <= 3 polls; keep-alive 60 s"
// @harness assumes="transport contract: write never returns Ok(0) for a non-empty buffer; a pending write/flush has accepted nothing (cancel-safe I/O)"
absout_harness!(c01_step_ping_write, 8, { step_body(g::K_PING, 0, true, false, false) });

// @harness props=C01,C13,C10,C16 tier=thorough layer=L3c unwind=8 heavy=1
// @harness funcs="Connection::perform_outbound_step (Control PingReq), complete_flush (real coroutines)"
// @harness sym="written offset, every arena byte, clock, per write: error / accepted 1..=n bytes; per flush: error / ok; after each Pending: drop (cancel) or re-poll" bounds="one step on PINGREQ, 2 bytes; write phase, write pending once (cancel point); <= 3 polls; keep-alive 60 s"
// @harness assumes="transport contract: write never returns Ok(0) for a non-empty buffer; a pending write/flush has accepted nothing (cancel-safe I/O)"
absout_harness!(c01_step_ping_write_wpend, 8, { step_body(g::K_PING, 0, true, true, false) });

// @harness props=C01,C13,C10,C16 tier=thorough layer=L3c unwind=8 heavy=1
// @harness funcs="Connection::perform_outbound_step (Control PingReq), complete_flush (real coroutines)"
// @harness sym="written offset, every arena byte, clock, per write: error / accepted 1..=n bytes; per flush: error / ok; after each Pending: drop (cancel) or re-poll" bounds="one step on PINGREQ, 2 bytes; write phase, flush pending once (cancel point after accepted bytes); <= 3 polls; keep-alive 60 s"
// @harness assumes="transport contract: write never returns Ok(0) for a non-empty buffer; a pending write/flush has accepted nothing (cancel-safe I/O)"
absout_harness!(c01_step_ping_write_fpend, 8, { step_body(g::K_PING, 0, true, false, true) });

// @harness props=C01,C13,C10,C16 quick_props=C10,C16 tier=quick layer=L3c unwind=8 heavy=1
// @harness funcs="Connection::perform_outbound_step (Control PingReq), complete_flush (real coroutines)"
// @harness sym="written offset, every arena byte, clock, per write: error / accepted 1..=n bytes; per flush: error / ok; after each Pending: drop (cancel) or re-poll" bounds="one step on PINGREQ, 2 bytes; flush phase, transport ready; <= 3 polls; keep-alive 60 s"
// @harness assumes="transport contract: write never returns Ok(0) for a non-empty buffer; a pending write/flush has accepted nothing (cancel-safe I/O)"
absout_harness!(c01_step_ping_flush, 8, { step_body(g::K_PING, 1, true, false, false) });

// @harness props=C01,C13,C10,C16 tier=thorough layer=L3c unwind=8 heavy=1
// @harness funcs="Connection::perform_outbound_step (Control PingReq), complete_flush (real coroutines)"
// @harness sym="written offset, every arena byte, clock, per write: error / accepted 1..=n bytes; per flush: error / ok; after each Pending: drop (cancel) or re-poll" bounds="one step on PINGREQ, 2 bytes; flush phase, flush pending once (cancel point); <= 3 polls; keep-alive 60 s"
// @harness assumes="transport contract: write never returns Ok(0) for a non-empty buffer; a pending write/flush has accepted nothing (cancel-safe I/O)"
absout_harness!(c01_step_ping_flush_fpend, 8, { step_body(g::K_PING, 1, true, false, true) });

// @harness props=C01,C13,C03,C16 quick_props=C03 tier=quick layer=L3c unwind=8 heavy=1
// @harness funcs="Connection::perform_outbound_step (Release), serialize_pubrel (real coroutines)"
// @harness sym="written offset, every arena byte, clock, per write: error / accepted 1..=n bytes; per flush: error / ok; after each Pending: drop (cancel) or re-poll" bounds="one step on PUBREL(id 9), 5 bytes; write phase, transport ready; <= 3 polls; keep-alive 60 s"
// @harness assumes="transport contract: write never returns Ok(0) for a non-empty buffer; a pending write/flush has accepted nothing (cancel-safe I/O)"
absout_harness!(c01_step_release_write, 8, { step_body(g::K_REL, 0, true, false, false) });

// @harness props=C01,C13,C03,C16 tier=thorough layer=L3c unwind=8 heavy=1
// @harness funcs="Connection::perform_outbound_step (Release), serialize_pubrel (real coroutines)"
// @harness sym="written offset, every arena byte, clock, per write: error / accepted 1..=n bytes; per flush: error / ok; after each Pending: drop (cancel) or re-poll" bounds="one step on PUBREL(id 9), 5 bytes; write phase, write pending once (cancel point); <= 3 polls; keep-alive 60 s"
// @harness assumes="transport contract: write never returns Ok(0) for a non-empty buffer; a pending write/flush has accepted nothing (cancel-safe I/O)"
absout_harness!(c01_step_release_write_wpend, 8, { step_body(g::K_REL, 0, true, true, false) });

// @harness props=C01,C13,C03,C16 tier=thorough layer=L3c unwind=8 heavy=1
// @harness funcs="Connection::perform_outbound_step (Release), serialize_pubrel (real coroutines)"
// @harness sym="written offset, every arena byte, clock, per write: error / accepted 1..=n bytes; per flush: error / ok; after each Pending: drop (cancel) or re-poll" bounds="one step on PUBREL(id 9), 5 bytes; write phase, flush pending once (cancel point after accepted bytes); <= 3 polls; keep-alive 60 s"
// @harness assumes="transport contract: write never returns Ok(0) for a non-empty buffer; a pending write/flush has accepted nothing (cancel-safe I/O)"
absout_harness!(c01_step_release_write_fpend, 8, { step_body(g::K_REL, 0, true, false, true) });

// @harness props=C01,C13,C03,C16 quick_props=C03,C16 tier=quick layer=L3c unwind=8 heavy=1
// @harness funcs="Connection::perform_outbound_step (Release), serialize_pubrel (real coroutines)"
// @harness sym="written offset, every arena byte, clock, per write: error / accepted 1..=n bytes; per flush: error / ok; after each Pending: drop (cancel) or re-poll" bounds="one step on PUBREL(id 9), 5 bytes; flush phase, transport ready; <= 3 polls; keep-alive 60 s"
// @harness assumes="transport contract: write never returns Ok(0) for a non-empty buffer; a pending write/flush has accepted nothing (cancel-safe I/O)"
absout_harness!(c01_step_release_flush, 8, { step_body(g::K_REL, 1, true, false, false) });

// @harness props=C01,C13,C03,C16 tier=thorough layer=L3c unwind=8 heavy=1
// @harness funcs="Connection::perform_outbound_step (Release), serialize_pubrel (real coroutines)"
// @harness sym="written offset, every arena byte, clock, per write: error / accepted 1..=n bytes; per flush: error / ok; after each Pending: drop (cancel) or re-poll" bounds="one step on PUBREL(id 9), 5 bytes; flush phase, flush pending once (cancel point); <= 3 polls; keep-alive 60 s"
// @harness assumes="transport contract: write never returns Ok(0) for a non-empty buffer; a pending write/flush has accepted nothing (cancel-safe I/O)"
absout_harness!(c01_step_release_flush_fpend, 8, { step_body(g::K_REL, 1, true, false, true) });

// @harness props=C14,C16 tier=quick layer=L3c unwind=8 heavy=1
// @harness funcs="Connection::perform_outbound_step (Retained) with a Maximum Packet Size below the packet length"
// @harness sym="maximum packet size, written offset, arena" bounds="4-byte retained packet"
absout_harness!(c14_replay_respects_limit, 8, {
    g::reset_ghost();
    let mut rx = [0u8; 8];
    let mut tx: [u8; 16] = kani::any();
    let mut session = Session::new(ConfigBuilder::new(Buffers::new(&mut rx, &mut tx)));
    let max: u32 = kani::any();
    session.runtime.maximum_packet_size = Some(max);
    let w0: usize = kani::any();
    kani::assume(w0 < 4);
    unsafe {
        g::KIND = g::K_RET;
        g::RET_OFF = 0;
        g::LEN = 4;
        g::WRITTEN = w0;
    }
    let mut conn = Connection { session: &mut session, io: SymIo, event: ConnectEvent::Reconnected, live: true };
    let step = conn.session.data.outbound.next_step().unwrap();
    unsafe {
        PEND_WRITE = false;
        PEND_FLUSH = false;
    }
    let r = {
        let fut = conn.perform_outbound_step(step, Instant::from_ticks(1));
        let mut fut = core::pin::pin!(fut);
        // nothing is pending in this harness: one poll completes the step
        match poll_once(fut.as_mut()) {
            Poll::Ready(r) => Some(r),
            Poll::Pending => None,
        }
    };
    assert!(r.is_some(), "harness: unexpected Pending");
    unsafe {
        if max < 4 {
            assert!(g::IO_WRITES == 0, "C14: a retained packet longer than the broker's Maximum Packet Size was transmitted on replay");
            assert!(matches!(r, Some(Err(Error::Resource(ResourceError::PacketTooLarge)))), "C14: oversize replay is reported as PacketTooLarge");
        } else {
            assert!(g::IO_WRITES == 1, "C14: a packet within the limit is sent");
        }
    }
    kani::cover!(max < 4);
    kani::cover!(max >= 4);
});

// ---------------------------------------------------------------------------------------------
// A3: write_all / write_packet (direct writers: progress is recorded nowhere)
// ---------------------------------------------------------------------------------------------
// @harness props=C13,C01,C15 quick_props=C13,C15 tier=quick layer=L3c heavy=1
// @harness funcs="outbound::write_all (real coroutine)"
// @harness sym="4 bytes, per write pending/error/accepted k, drop or re-poll" bounds="4-byte buffer, <= 6 polls"
// @harness assumes="transport contract as c01_step_retained"
#[kani::proof]
#[kani::unwind(8)]
fn c13_write_all_contract() {
    g::reset_ghost();
    unsafe { PEND_WRITE = true };
    let bytes: [u8; 4] = kani::any();
    let mut io = SymIo;
    let mut result = None;
    {
        let fut = write_all(&mut io, &bytes);
        let mut fut = core::pin::pin!(fut);
        let mut polls = 0;
        while polls < 6 {
            match poll_once(fut.as_mut()) {
                Poll::Ready(r) => {
                    result = Some(r);
                    break;
                }
                Poll::Pending => {
                    if kani::any() {
                        break;
                    }
                }
            }
            polls += 1;
        }
    }
    unsafe {
        // whatever happens, what the transport accepted is a prefix of the buffer, in order
        assert!(g::IO_ACC_N <= 4, "C15/A3: more bytes accepted than offered");
        let mut i = 0;
        while i < 4 {
            if i < g::IO_ACC_N {
                assert!(g::IO_ACC[i] == bytes[i], "C15/A3: partial writes reorder or repeat bytes");
            }
            i += 1;
        }
        if let Some(Ok(())) = result {
            assert!(g::IO_ACC_N == 4, "C15/A3: write_all returned Ok before everything was accepted");
        }
        assert!(g::IO_FLUSHES == 0 && g::IO_READS == 0);
        kani::cover!(matches!(result, Some(Ok(()))) && g::IO_WRITES == 4, "four single-byte writes");
        kani::cover!(result.is_none() && g::IO_ACC_N >= 1, "cancelled mid-packet: progress exists only in the dropped future");
    }
}

// ---------------------------------------------------------------------------------------------
// A4: fill_packet_reader / read_packet
// ---------------------------------------------------------------------------------------------
fn read_body(cap_ok: bool, pend_read: bool) {
    g::reset_ghost();
    unsafe { PEND_READ = pend_read };
    let mut rx = [0u8; 4];
    let mut tx = [0u8; 8];
    let mut session = Session::new(ConfigBuilder::new(Buffers::new(&mut rx, &mut tx)));
    let script: [u8; 8] = kani::any();
    unsafe {
        IN = script;
        IN_LEN = 4;
        IN_OFF = 0;
        IN_EOF = 0;
    }
    // total packet length 2 + script[1]
    if cap_ok {
        kani::assume(script[1] <= 2);
    } else {
        kani::assume(script[1] & 0x80 == 0 && script[1] > 2);
    }
    let live: bool = kani::any();
    let mut conn = Connection { session: &mut session, io: SymIo, event: ConnectEvent::Connected, live };
    let mut result = None;
    let mut dropped = false;
    {
        let fut = conn.read_packet();
        let mut fut = core::pin::pin!(fut);
        match poll_once(fut.as_mut()) {
            Poll::Ready(r) => result = Some(r),
            Poll::Pending => {
                assert!(pend_read && live, "harness: unexpected Pending");
                // first read is pending: cancel here, or let it proceed (later reads are pending
                // too; one more poll suffices to see a committed chunk followed by the next yield)
                if kani::any() {
                    dropped = true;
                } else if let Poll::Ready(r) = poll_once(fut.as_mut()) {
                    result = Some(r);
                } else {
                    dropped = true;
                }
            }
        }
    }
    unsafe {
        assert!(g::IO_WRITES == 0 && g::IO_FLUSHES == 0, "C11/read: reading writes to the transport");
        if !live {
            assert!(g::IO_READS == 0 && matches!(result, Some(Err(Error::Disconnected))), "C11/read: a dead handle touched the transport");
        }
        match &result {
            Some(Ok(())) => {
                let total = 2 + script[1] as usize;
                assert!(conn.session.packet_reader.packet_available(), "C15/A4: Ok means a whole packet is buffered");
                assert!(IN_OFF == total, "C15/A4: exactly one packet was consumed from the stream");
                let mut i = 0;
                while i < 4 {
                    if i < total {
                        assert!(conn.session.packet_reader.buffer[i] == script[i], "C15/A4: the buffered packet differs from the stream");
                    }
                    i += 1;
                }
                assert!(conn.live);
            }
            Some(Err(e)) => {
                if live {
                    assert!(!conn.live, "C11/read: a transport error, end of stream or oversize packet did not latch the handle");
                    assert!(g::N_ARM >= 1, "C12/read: failure did not arm replay");
                    assert!(!conn.session.packet_reader.packet_available(), "C12/read: a partial inbound packet survives the failure");
                }
                match e {
                    Error::Transport(_) => assert!(g::IO_ERRS == 1),
                    Error::Disconnected => assert!(!live || IN_EOF == 1, "C11/read: Disconnected without end of stream"),
                    Error::Peer(PeerError::InvalidPacket) => assert!(!cap_ok, "C08/read: a packet that fits was refused"),
                    _ => assert!(false, "C11/read: unexpected error kind"),
                }
            }
            None => {
                // C13: a cancelled read keeps what was committed; the handle stays usable
                assert!(dropped && conn.live == live && g::N_ARM == 0, "C13/read: cancellation is not a disconnect");
                assert!(conn.session.packet_reader.buffer[0] == script[0] || IN_OFF == 0, "C13/read: committed bytes survive cancellation");
            }
        }
        if !cap_ok && live {
            assert!(IN_OFF <= 2, "C14/read: body bytes of a packet larger than the receive buffer were requested");
            assert!(!matches!(result, Some(Ok(()))), "C14/read: an oversize packet was accepted");
        }
    }
    kani::cover!(!cap_ok || pend_read || matches!(result, Some(Ok(()))));
    kani::cover!(!pend_read || (dropped && unsafe { IN_OFF } >= 1), "cancelled after a chunk was committed");
}

// The commit/latch behaviour of read_packet for packets that fit, and the await-point invariant
// "everything delivered so far is committed when the next read starts" are decided in the
// projection (p_drive.rs: c15_read_packet_commits_and_latches): as coroutines the fill loop did not
// finish (900 s, 7-13 GB); only the oversize case does.

// @harness props=C14,C11,C08 tier=thorough layer=L3c unwind=8 heavy=1
// @harness funcs="Connection::read_packet, fill_packet_reader with a declared length above the receive buffer"
// @harness sym="stream bytes with remaining length 3..127, chunking" bounds="4-byte receive buffer"
absout_harness!(c14_oversize_inbound_latches, 8, { read_body(false, false) });

// F9 (disconnect() cancelled after part of DISCONNECT was accepted leaves a live handle mid-packet)
// is decided in the projection (p_operations.rs c01_disconnect_latches: DISCONNECT goes through
// write_all while the handle is live) together with c13_write_all_contract above (write_all's
// progress exists only in the future).  The whole disconnect() coroutine did not finish (900 s).
