//! L2 harnesses on session/mod.rs: operation handle status (C18), publish gate (C06).
use super::*;
use crate::mqtt_client::outbound::verif_outbound::{any_state, set_release_state, set_retained_state};
use crate::mqtt_client::Op;
use crate::{Buffers, ConfigBuilder, ReasonCode};

fn any_kind() -> OpKind {
    match kani::any::<u8>() % 4 {
        0 => OpKind::PublishAtLeastOnce,
        1 => OpKind::PublishExactlyOnce,
        2 => OpKind::Subscribe,
        _ => OpKind::Unsubscribe,
    }
}

// @harness props=C18,C05 tier=quick layer=L2
// @harness funcs="Session::status, is_pending, is_complete, is_invalidated, Outbound::has_retained, has_pending_release"
// @harness sym="operation kind (4), handle id (u16), handle generation (u32), send state of both in-flight entries" bounds="session with one retained id (5) and one id awaiting PUBCOMP (6)"
#[kani::proof]
#[kani::unwind(4)]
fn c18_status_table() {
    let mut rx = [0u8; 8];
    let mut tx = [0u8; 8];
    let mut session = Session::new(ConfigBuilder::new(Buffers::new(&mut rx, &mut tx)));
    session.data.outbound.retain_packet(5, 0, 2).unwrap();
    session.data.outbound.queue_release(6, ReasonCode::Success).unwrap();
    // whether the PUBLISH / PUBREL is still to be written, partly written or on the wire must not
    // matter: only the final acknowledgement completes the operation
    set_retained_state(&mut session.data.outbound, 0, any_state(2));
    set_release_state(&mut session.data.outbound, 0, any_state(4));
    let g: u32 = kani::any();
    // the generation counter is private to state.rs; advance it through reset() is too slow for a
    // symbolic value, so the handle generation is compared against the current one
    let cur = session.data.generation();
    let kind = any_kind();
    let id: u16 = kani::any();
    let op = Op::new(kind, id, g);
    let st = session.status(&op);
    let want = if g != cur {
        OpStatus::Invalidated
    } else if id == 5 || (kind == OpKind::PublishExactlyOnce && id == 6) {
        OpStatus::Pending
    } else {
        OpStatus::Complete
    };
    assert!(st == want, "C18: status = invalidated iff the generation differs, else pending iff the id is still in flight for this kind, else complete");
    let p = session.is_pending(&op);
    let c = session.is_complete(&op);
    let i = session.is_invalidated(&op);
    assert!((p as u8) + (c as u8) + (i as u8) == 1, "C18: exactly one of pending / complete / invalidated");
    assert!(p == (want == OpStatus::Pending) && c == (want == OpStatus::Complete) && i == (want == OpStatus::Invalidated));
    kani::cover!(want == OpStatus::Pending && kind == OpKind::PublishExactlyOnce && id == 6);
    kani::cover!(want == OpStatus::Complete && id == 6);
    kani::cover!(want == OpStatus::Invalidated);
}

// @harness props=C18,C05 tier=quick layer=L2
// @harness funcs="SessionData::reset, Session::status"
// @harness sym="operation kind, id" bounds="handle issued before a fresh session replaced the old one"
#[kani::proof]
#[kani::unwind(4)]
fn c18_fresh_session_invalidates() {
    let mut rx = [0u8; 8];
    let mut tx = [0u8; 8];
    let mut session = Session::new(ConfigBuilder::new(Buffers::new(&mut rx, &mut tx)));
    let kind = any_kind();
    let id: u16 = kani::any();
    session.data.outbound.retain_packet(id, 0, 2).unwrap();
    let op = Op::new(kind, id, session.data.generation());
    assert!(session.is_pending(&op), "C18: an operation in flight is pending");
    session.data.reset();
    assert!(session.is_invalidated(&op) && !session.is_pending(&op) && !session.is_complete(&op), "C18/C05: after a fresh session every earlier handle reports invalidated");
    // a handle issued in the new session with the same id is independent
    let op2 = Op::new(kind, id, session.data.generation());
    assert!(session.is_complete(&op2), "C18: nothing of the old session is pending in the new one");
}

// @harness props=C06,C19 tier=quick layer=L2
// @harness funcs="Session::can_publish, Connection::can_publish, Outbound::can_retain, scratch_len, retained_full"
// @harness sym="send quota (u16), QoS, amount of retained data (0..=16), live flag" bounds="16-byte arena, 0 or 1 retained packet of symbolic length"
#[kani::proof]
#[kani::unwind(4)]
fn c06_can_publish_gate() {
    let mut rx = [0u8; 8];
    let mut tx = [0u8; 16];
    let mut session = Session::new(ConfigBuilder::new(Buffers::new(&mut rx, &mut tx)));
    let l: usize = kani::any();
    kani::assume(l <= 16);
    if l > 0 {
        session.data.outbound.retain_packet(1, 0, l).unwrap();
    }
    session.runtime.send_quota = kani::any();
    let quota = session.runtime.send_quota;
    let q0 = session.can_publish(QoS::AtMostOnce);
    let q1 = session.can_publish(QoS::AtLeastOnce);
    let q2 = session.can_publish(QoS::ExactlyOnce);
    assert!(q0 == (16 - l >= 5), "C17: QoS 0 needs room for a fixed header only");
    assert!(q1 == (quota != 0 && 16 - l >= 5), "C06: QoS 1 is admitted only with quota left (and arena room)");
    assert!(q2 == q1, "C06: QoS 2 is gated like QoS 1");
    kani::cover!(q1);
    kani::cover!(!q1 && quota != 0);
    kani::cover!(!q1 && q0);
}
