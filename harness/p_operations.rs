//! L3p placeholder (compile check of the projection)
use super::*;

// @harness props=DEV tier=dev layer=L3p
#[kani::proof]
fn dev_projection_compiles() {
    assert!(1 + 1 == 2);
}
