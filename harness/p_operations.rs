//! L3p harnesses on session/operations.rs (schedule-free projection): publish, subscribe,
//! unsubscribe, disconnect against the abstract outbound with `flush_outbound` replaced by its
//! contract A2 (the only awaiting callee of the QoS>0 operations, so the only place where their
//! future can be dropped).
#![allow(static_mut_refs)]
use super::*;
use crate::mqtt_client::outbound::verif_x_outbound as g;
use crate::mqtt_client::outbound::Outbound;
use crate::mqtt_client::session::drive::verif_p_drive::{self as pd, SymIoP};
use crate::mqtt_client::{ConnectEvent, OpKind};
use crate::properties::verif_x_properties as xp;
use crate::{Buffers, ConfigBuilder, PeerError, ReasonCode, Session};

macro_rules! ops_harness {
    ($name:ident, $unwind:literal, $body:block) => {
        #[kani::proof]
        #[kani::unwind($unwind)]
        #[kani::stub(embassy_time::Instant::now, crate::verif_common::stub_now)]
        #[kani::stub(Outbound::retained_full, g::st_retained_full)]
        #[kani::stub(Outbound::can_retain, g::st_can_retain)]
        #[kani::stub(Outbound::scratch_len, g::st_scratch_len)]
        #[kani::stub(Outbound::retain_packet, g::st_retain_packet)]
        #[kani::stub(Outbound::arm_replay, g::st_arm_replay)]
        #[kani::stub(Outbound::encode_publish, Outbound::kst_encode_publish)]
        #[kani::stub(Outbound::encode_packet, Outbound::kst_encode_packet)]
        #[kani::stub(Properties::valid_for, Properties::kst_valid_for)]
        #[kani::stub(Connection::flush_outbound, Connection::kst_flush_outbound)]
        #[kani::stub(Outbound::next_step, g::st_next_step)]
        #[kani::stub(Connection::perform_outbound_step, Connection::kst_perform_outbound_step)]
        fn $name() $body
    };
}

fn any_qos12() -> QoS {
    if kani::any() {
        QoS::AtLeastOnce
    } else {
        QoS::ExactlyOnce
    }
}

fn any_max_qos() -> Option<QoS> {
    match kani::any::<u8>() % 4 {
        0 => None,
        1 => Some(QoS::AtMostOnce),
        2 => Some(QoS::AtLeastOnce),
        _ => Some(QoS::ExactlyOnce),
    }
}

/// Every `encode` / `retain` in the log is preceded by a successful drain with no outbound
/// activity in between (C01-O3: an operation's own packet never starts inside another one).
fn drained_before_encode() -> bool {
    let e = g::first(g::E_ENCODE);
    if e == usize::MAX {
        return true;
    }
    let d = g::last_before(g::E_DRAIN_OK, e);
    d != usize::MAX && g::last_before(g::E_DRAIN_ERR, e) == usize::MAX
}

// @harness props=C02,C06,C13,C14,C18,C19,C01,C07,C11,C03 tier=quick layer=L3p unwind=14
// @harness funcs="Connection::publish (QoS 1/2 path), require_retained_slot, Session::can_publish, RuntimeState::require_packet_size, SessionData::next_packet_id (projection)"
// @harness sym="requested QoS (1/2), broker Maximum QoS, downgrade flag, send quota, Maximum Packet Size, encoded length, validity of the properties, arena answers (full / can retain / encode fails), live flag, outcome of both drains (A2), in-progress entry at entry" bounds="one publish call; abstract outbound with <= 1 entry in progress at entry"
// @harness assumes="A2 (flush_outbound contract: c01_flush_outbound_contract), K6/K7 (retain appends, encode behind prefix), Properties::valid_for answer arbitrary (c19_*)"
ops_harness!(c02_publish_qos12_enqueue, 14, {
    pd::reset_all();
    let mut rx = [0u8; 8];
    let mut tx = [0u8; 24];
    let mut cfg = ConfigBuilder::new(Buffers::new(&mut rx, &mut tx));
    let downgrade: bool = kani::any();
    if downgrade {
        cfg = cfg.autodowngrade_qos();
    }
    let mut session = Session::new(cfg);
    g::any_current(0, 3);
    session.runtime.send_quota = kani::any();
    session.runtime.max_send_quota = 8;
    kani::assume(session.runtime.send_quota <= 8);
    session.runtime.max_qos = any_max_qos();
    // a downgrade to QoS 0 takes the direct-write path: c19_publish_q0_downgrade
    kani::assume(!(downgrade && session.runtime.max_qos == Some(QoS::AtMostOnce)));
    session.runtime.maximum_packet_size = if kani::any() { Some(kani::any()) } else { None };
    unsafe {
        g::FULL = kani::any();
        g::CAN_RETAIN = kani::any();
        g::ENC_FAIL = kani::any();
        g::ENC_OFF = 5;
        g::ENC_LEN = kani::any();
        kani::assume(g::ENC_LEN >= 7 && g::ENC_LEN <= 12);
        xp::VALID = kani::any();
        pd::CHECK_ENQ = true;
        pd::ENQ_IS_PUBLISH = true;
        pd::Q0 = session.runtime.send_quota;
    }
    let q0 = session.runtime.send_quota;
    let gen0 = session.data.generation();
    let live: bool = kani::any();
    let qos = any_qos12();
    let mut conn = Connection { session: &mut session, io: SymIoP, event: ConnectEvent::Connected, live };
    let payload = [1u8, 2];
    let res = conn.publish(Publication::bytes("a", &payload).qos(qos));
    let quota = conn.session.runtime.send_quota;
    unsafe {
        let used_qos = match conn.session.runtime.max_qos {
            Some(m) if downgrade && qos > m => m,
            _ => qos,
        };
        // bookkeeping is consistent on EVERY exit, error or not
        assert!(q0 - quota == g::N_RETAIN as u16 && g::N_RETAIN <= 1, "C13/C02: on return the message is either fully enqueued (retained + one quota slot) or absent");
        assert!(drained_before_encode(), "C01/O3: PUBLISH was encoded without draining the packet in progress first");
        if g::N_RETAIN == 1 {
            assert!(g::first(g::E_ENCODE) < g::first(g::E_RETAIN), "C02: retained before it was encoded");
            assert!(q0 >= 1, "C06: a publish was accepted with no Receive Maximum slot left");
            assert!(g::LAST_RETAIN.1 == g::ENC_OFF && g::LAST_RETAIN.2 == g::ENC_LEN, "C17: the retained range is the encoded range");
            assert!(conn.session.runtime.maximum_packet_size.map_or(true, |m| g::ENC_LEN <= m as usize), "C14: a PUBLISH longer than the broker's Maximum Packet Size was retained for sending");
            assert!(g::LAST_RETAIN.0 != 0, "C07: packet identifier 0");
            assert!(xp::VALID, "C19: a publish with invalid properties was enqueued");
            assert!(live || false, "C11: a dead handle enqueued a message");
            assert!(used_qos != QoS::AtMostOnce);
        }
        if !live {
            assert!(matches!(res, Err(PubError::Session(Error::Disconnected))), "C11: publish on a dead handle must fail with Disconnected");
            assert!(g::LOG_N == 0 && g::IO_WRITES == 0 && pd::N_DRAIN == 0, "C11/C19: a dead handle did something");
        }
        match &res {
            Ok(Some(op)) => {
                assert!(g::N_RETAIN == 1, "C02: an operation handle was returned for a message that is not retained");
                assert!(*op == Op::new(if used_qos == QoS::ExactlyOnce { OpKind::PublishExactlyOnce } else { OpKind::PublishAtLeastOnce }, g::LAST_RETAIN.0, gen0), "C18/C19: the handle carries the retained id, the current generation and the QoS actually used");
                assert!(pd::N_DRAIN == 2, "C02: publish drains before and after enqueueing");
            }
            Ok(None) => {
                assert!(used_qos == QoS::AtMostOnce && downgrade, "C19: QoS 1/2 publish returned no handle without a downgrade to QoS 0");
                assert!(g::N_RETAIN == 0);
            }
            Err(PubError::Session(Error::InvalidRequest)) => {
                assert!(!xp::VALID, "C19: valid properties refused");
                assert!(g::N_ENCODE == 0 && g::N_RETAIN == 0 && quota == q0, "C19: a refused publish left a trace");
            }
            Err(PubError::Session(Error::NotReady)) => {
                assert!(g::N_ENCODE == 0 && g::N_RETAIN == 0 && quota == q0, "C06: a publish refused for lack of quota left something behind");
                assert!(used_qos == QoS::AtMostOnce || q0 == 0 || !g::CAN_RETAIN || g::FULL, "C06: NotReady although quota and space were available");
            }
            Err(PubError::Session(Error::Resource(ResourceError::PacketTooLarge))) => {
                // either the new packet is too large (nothing retained) or a drain hit an oversize replay
                assert!(g::N_RETAIN == 0 || pd::N_DRAIN == 2, "C14: oversize publish was retained");
            }
            Err(PubError::Session(Error::Resource(ResourceError::InflightExhausted))) => assert!(g::FULL && g::N_RETAIN == 0 && g::N_ENCODE == 0, "C19: InflightExhausted without a full list"),
            Err(PubError::Session(Error::Transport(_))) => assert!(!conn.live, "C11: transport error without latch"),
            Err(_) => {}
        }
        if xp::VALID && live && used_qos != QoS::AtMostOnce && q0 >= 1 && g::CAN_RETAIN && !g::FULL && !g::ENC_FAIL && pd::N_DRAIN >= 1 && g::first(g::E_DRAIN_ERR) == usize::MAX {
            assert!(
                g::N_RETAIN == 1 || conn.session.runtime.maximum_packet_size.map_or(false, |m| g::ENC_LEN > m as usize),
                "C19: a valid publish within quota, space and size limits was not accepted"
            );
        }
    }
    kani::cover!(matches!(res, Ok(Some(_))));
    kani::cover!(matches!(res, Err(PubError::Session(Error::NotReady))));
    kani::cover!(matches!(res, Err(PubError::Session(Error::Resource(ResourceError::PacketTooLarge)))));
    kani::cover!(res.is_err() && unsafe { g::N_RETAIN } == 1, "failed (second drain) after the message was enqueued");
});

fn sub_unsub_body(unsub: bool) {
    pd::reset_all();
    let mut rx = [0u8; 8];
    let mut tx = [0u8; 24];
    let mut session = Session::new(ConfigBuilder::new(Buffers::new(&mut rx, &mut tx)));
    g::any_current(0, 3);
    session.runtime.send_quota = kani::any();
    session.runtime.maximum_packet_size = if kani::any() { Some(kani::any()) } else { None };
    unsafe {
        g::FULL = kani::any();
        g::ENC_FAIL = kani::any();
        g::ENC_OFF = 5;
        g::ENC_LEN = kani::any();
        kani::assume(g::ENC_LEN >= 7 && g::ENC_LEN <= 12);
        xp::VALID = kani::any();
        pd::CHECK_ENQ = true;
        pd::ENQ_IS_PUBLISH = false;
        pd::Q0 = session.runtime.send_quota;
    }
    let q0 = session.runtime.send_quota;
    let gen0 = session.data.generation();
    let live: bool = kani::any();
    let empty: bool = kani::any();
    let mut conn = Connection { session: &mut session, io: SymIoP, event: ConnectEvent::Connected, live };
    let filters = [TopicFilter::new("a")];
    let names = ["a"];
    let res = if unsub {
        conn.unsubscribe(if empty { &names[..0] } else { &names[..] }, &[])
    } else {
        conn.subscribe(if empty { &filters[..0] } else { &filters[..] }, &[])
    };
    unsafe {
        assert!(conn.session.runtime.send_quota == q0, "C06: SUBSCRIBE/UNSUBSCRIBE changed the publish quota");
        assert!(drained_before_encode(), "C01/O3: SUBSCRIBE/UNSUBSCRIBE was encoded without draining the packet in progress first");
        assert!(g::N_RETAIN <= 1);
        if g::N_RETAIN == 1 {
            assert!(live && !empty && xp::VALID, "C19: an invalid or dead request was enqueued");
            assert!(conn.session.runtime.maximum_packet_size.map_or(true, |m| g::ENC_LEN <= m as usize), "C14: an oversize SUBSCRIBE/UNSUBSCRIBE was retained for sending");
            assert!(g::LAST_RETAIN.0 != 0 && g::LAST_RETAIN.1 == g::ENC_OFF && g::LAST_RETAIN.2 == g::ENC_LEN);
        }
        if !live {
            assert!(matches!(res, Err(Error::Disconnected)) && g::LOG_N == 0 && pd::N_DRAIN == 0, "C11: a dead handle did something");
        } else if empty || !xp::VALID {
            assert!(matches!(res, Err(Error::InvalidRequest)), "C19: empty topic list / invalid properties must be InvalidRequest");
            assert!(g::LOG_N == 0 && pd::N_DRAIN == 0 && g::N_RETAIN == 0, "C19: a refused request left a trace (not even a drain is needed)");
        }
        match &res {
            Ok(op) => {
                assert!(g::N_RETAIN == 1 && pd::N_DRAIN == 2, "C18: handle without a retained packet");
                assert!(*op == Op::new(if unsub { OpKind::Unsubscribe } else { OpKind::Subscribe }, g::LAST_RETAIN.0, gen0), "C18: the handle carries the retained id and the current generation");
            }
            Err(Error::Resource(ResourceError::InflightExhausted)) => assert!(g::FULL && g::N_ENCODE == 0 && g::N_RETAIN == 0, "C19: InflightExhausted before anything is encoded"),
            Err(Error::Transport(_)) => assert!(!conn.live, "C11: transport error without latch"),
            _ => {}
        }
    }
    kani::cover!(res.is_ok());
    kani::cover!(res.is_err() && unsafe { g::N_RETAIN } == 1);
}

// @harness props=C19,C14,C18,C01,C13,C11,C07,C06 tier=quick layer=L3p unwind=14
// @harness funcs="Connection::subscribe (projection)"
// @harness sym="empty/non-empty topic list, validity answer, Maximum Packet Size, encoded length, list full, encode failure, live, drain outcomes, in-progress entry at entry" bounds="one call"
// @harness assumes="A2, K6/K7, valid_for answer arbitrary"
ops_harness!(c19_subscribe_gates, 14, { sub_unsub_body(false) });

// @harness props=C19,C14,C18,C01,C13,C11,C07 tier=quick layer=L3p unwind=14
// @harness funcs="Connection::unsubscribe (projection)"
// @harness sym="as c19_subscribe_gates" bounds="one call"
// @harness assumes="A2, K6/K7, valid_for answer arbitrary"
ops_harness!(c19_unsubscribe_gates, 14, { sub_unsub_body(true) });

// @harness props=C01,C11,C14,C19,C13 tier=quick layer=L3p unwind=8
// @harness funcs="Connection::disconnect_with, disconnect, write_all (projection), MqttSerializer::encode(Disconnect)"
// @harness sym="live flag, Maximum Packet Size, reason form, validity answer, in-progress entry at entry, every write/flush outcome" bounds="DISCONNECT of 2 or 3 bytes"
// @harness assumes="K1 (abstract outbound), A1 (step contract) for finishing a packet in progress"
ops_harness!(c01_disconnect_latches, 8, {
    pd::reset_all();
    let mut rx = [0u8; 8];
    let mut tx = [0u8; 16];
    let mut session = Session::new(ConfigBuilder::new(Buffers::new(&mut rx, &mut tx)));
    g::any_current(0, 3);
    let in_progress = unsafe { g::KIND != g::K_NONE && (g::WRITTEN > 0 || g::FLUSH) };
    session.runtime.maximum_packet_size = if kani::any() { Some(kani::any()) } else { None };
    let live: bool = kani::any();
    let with_reason: bool = kani::any();
    let mut conn = Connection { session: &mut session, io: SymIoP, event: ConnectEvent::Connected, live };
    let res = if with_reason { conn.disconnect_with(Disconnect::with_reason(ReasonCode::DisconnectWithWill)) } else { conn.disconnect() };
    unsafe {
        pd::LIVE_PTR = core::ptr::null();
        if !live {
            assert!(matches!(res, Ok(())) && g::IO_WRITES == 0 && g::IO_FLUSHES == 0 && g::LOG_N == 0, "C11: disconnect on a dead handle must be a silent Ok");
        } else {
            let len = if with_reason { 3usize } else { 2 };
            let too_big = conn.session.runtime.maximum_packet_size.map_or(false, |m| len > m as usize);
            if too_big {
                assert!(matches!(res, Err(Error::Resource(ResourceError::PacketTooLarge))) && g::IO_WRITES == 0, "C14: an oversize DISCONNECT was written");
            } else {
                // finishing the packet in progress can fail without reaching the DISCONNECT write:
                // a transport error latches; only then may the handle still... no: every path latches
                assert!(!conn.live || (in_progress && matches!(res, Err(_)) && !matches!(res, Err(Error::Transport(_)))), "C11/C01: after disconnect() the handle must be dead (nothing follows a DISCONNECT)");
                assert!(conn.live || g::N_ARM >= 1, "C12: disconnect arms replay for the next connection");
                if res.is_ok() {
                    assert!(g::IO_ACC_N >= len && g::IO_ACC[g::IO_ACC_N - len] == 0xE0 && g::IO_ACC[g::IO_ACC_N - len + 1] as usize == len - 2, "C09: DISCONNECT bytes are the last bytes written");
                    assert!(g::IO_FLUSH_OK >= 1);
                }
                // the packet in progress (if any) was completed before the first DISCONNECT byte:
                // asserted inside SymIoP::write for every direct write
            }
        }
    }
    kani::cover!(live && res.is_ok());
    kani::cover!(live && res.is_err() && !conn.live);
});

// @harness props=C13,C01 tier=quick layer=L3p unwind=8
// @harness funcs="Connection::disconnect_with, write_all (projection): which path carries the DISCONNECT bytes, and is the handle live at that moment"
// @harness sym="reason form, every write/flush outcome" bounds="DISCONNECT of 2 or 3 bytes, nothing queued"
// @harness assumes="A3: write_all records its progress nowhere (c13_write_all_contract); KNOWN FINDING F9 tagged"
ops_harness!(c13_disconnect_direct_writer, 8, {
    pd::reset_all();
    let mut rx = [0u8; 8];
    let mut tx = [0u8; 16];
    let mut session = Session::new(ConfigBuilder::new(Buffers::new(&mut rx, &mut tx)));
    let with_reason: bool = kani::any();
    let mut conn = Connection { session: &mut session, io: SymIoP, event: ConnectEvent::Connected, live: true };
    // SymIoP::write asserts: no multi-byte direct write while *LIVE_PTR (tag F9)
    unsafe { pd::LIVE_PTR = core::ptr::addr_of!(conn.live) };
    let _ = if with_reason { conn.disconnect_with(Disconnect::with_reason(ReasonCode::DisconnectWithWill)) } else { conn.disconnect() };
    unsafe { pd::LIVE_PTR = core::ptr::null() };
});

// @harness props=C01,C11,C14,C19,C09 quick_props=C01,C11,C14,C19 tier=quick layer=L3p unwind=14
// @harness funcs="Connection::publish (QoS 0 path), MqttSerializer::encode_publish, write_all, RuntimeState::note_outbound_activity (projection)"
// @harness sym="live, validity answer, scratch size answer, Maximum Packet Size, requested QoS with downgrade to 0, payload byte, every write/flush outcome, partial writes, in-progress entry at entry, drain outcome" bounds="PUBLISH 'a' + 1 payload byte (7 bytes)"
// @harness assumes="A2; valid_for answer arbitrary; K7 (scratch_space real on an empty arena)"
ops_harness!(c01_publish_q0_direct_write, 14, {
    pd::reset_all();
    let mut rx = [0u8; 8];
    let mut tx = [0u8; 24];
    let downgrade: bool = kani::any();
    let mut cfg = ConfigBuilder::new(Buffers::new(&mut rx, &mut tx));
    if downgrade {
        cfg = cfg.autodowngrade_qos();
    }
    let mut session = Session::new(cfg);
    g::any_current(0, 3);
    session.runtime.send_quota = kani::any();
    session.runtime.max_qos = if downgrade { Some(QoS::AtMostOnce) } else { None };
    session.runtime.maximum_packet_size = if kani::any() { Some(kani::any()) } else { None };
    unsafe {
        g::SCRATCH = kani::any();
        xp::VALID = kani::any();
    }
    let q0 = session.runtime.send_quota;
    let live: bool = kani::any();
    let qos = if downgrade { any_qos12() } else { QoS::AtMostOnce };
    let mut conn = Connection { session: &mut session, io: SymIoP, event: ConnectEvent::Connected, live };
    let payload: [u8; 1] = kani::any();
    let res = conn.publish(Publication::bytes("a", &payload).qos(qos));
    unsafe {
        assert!(conn.session.runtime.send_quota == q0 && g::N_RETAIN == 0, "C06/C19: a QoS 0 publish (also after downgrade) consumes no quota and retains nothing");
        if !live {
            assert!(matches!(res, Err(PubError::Session(Error::Disconnected))) && g::IO_WRITES == 0 && g::LOG_N == 0, "C11: a dead handle did something");
        } else if !xp::VALID {
            // (publish drains earlier traffic before validating, so a drain error may come first)
            assert!(res.is_err() && g::IO_ACC_N == 0, "C19: a publish with invalid properties reached the wire");
            assert!(matches!(res, Err(PubError::Session(Error::InvalidRequest))) || g::first(g::E_DRAIN_ERR) != usize::MAX, "C19: invalid properties must be refused with InvalidRequest");
        }
        match &res {
            Ok(op) => {
                assert!(op.is_none(), "C19: a QoS 0 publish returns no operation handle");
                // 30 05 00 01 'a' 00 <payload>
                assert!(g::IO_ACC_N == 7 && g::IO_ACC[0] == 0x30 && g::IO_ACC[1] == 5 && g::IO_ACC[4] == b'a' && g::IO_ACC[5] == 0 && g::IO_ACC[6] == payload[0], "C09/C19: the PUBLISH on the wire is QoS 0 with the requested topic and payload");
                assert!(conn.session.runtime.maximum_packet_size.map_or(true, |m| 7 <= m as usize), "C14: a PUBLISH longer than the broker's Maximum Packet Size was sent");
                assert!(g::IO_FLUSH_OK >= 1 && conn.live && xp::VALID);
                assert!(g::first(g::E_DRAIN_OK) < g::first(g::E_IO_WRITE), "C01/O3: QoS 0 PUBLISH written without draining first");
            }
            Err(PubError::Session(Error::Transport(_))) => assert!(!conn.live, "C11: transport error without latch"),
            Err(PubError::Session(Error::Resource(ResourceError::PacketTooLarge))) => {
                assert!(g::IO_ACC_N == 0 || pd::N_DRAIN >= 1, "C14: oversize PUBLISH reached the wire");
            }
            _ => {}
        }
        // whatever was written directly is a prefix of the one PUBLISH (partial on error only)
        assert!(g::IO_ACC_N <= 7, "C01: more than one packet's bytes were written");
    }
    kani::cover!(matches!(res, Ok(None)) && downgrade);
    kani::cover!(matches!(res, Ok(None)) && !downgrade);
    kani::cover!(matches!(res, Err(PubError::Session(Error::Transport(_)))));
});
