//! L1 harnesses on varint.rs: MQTT variable byte integer (C08, C09, C04).
use super::*;
use crate::verif_common::Cursor;

fn decode(bytes: &[u8; 5]) -> (Result<u32, u8>, usize) {
    let mut i = 0usize;
    let r = read_mqtt_u32_varint(
        || {
            if i < 5 {
                let b = bytes[i];
                i += 1;
                Ok(b)
            } else {
                Err(1u8)
            }
        },
        || 2u8,
    );
    (r, i)
}

// @harness props=C08,C09,C04 tier=quick layer=L1
// @harness funcs="write_mqtt_u32_varint, read_mqtt_u32_varint, Varint::encoded_len"
// @harness sym="value: every u32" bounds="exhaustive over u32 (loop of at most 4 iterations, unwinding asserted)"
#[kani::proof]
#[kani::unwind(6)]
fn c08_varint_roundtrip() {
    let v: u32 = kani::any();
    let mut out = VarintBuffer::new();
    let r = write_mqtt_u32_varint(v, &mut out);
    if v > MQTT_VARINT_MAX {
        assert!(r.is_err(), "C09/varint: value above 28 bits must not be encoded");
        return;
    }
    assert!(r.is_ok(), "C09/varint: every 28-bit value is encodable");
    let enc = out.as_slice();
    assert!(enc.len() == Varint(v).encoded_len(), "C09/varint: encoded_len() equals the bytes emitted");
    let mut bytes = [0u8; 5];
    let mut k = 0;
    while k < enc.len() {
        bytes[k] = enc[k];
        k += 1;
    }
    // independent decoder agrees and finds the encoding canonical
    let mut c = Cursor::new(&bytes);
    let rv = c.varint();
    assert!(c.ok && rv == v && c.i == enc.len(), "C09/varint: reference decoder reads the value back");
    // the crate's decoder accepts what the crate's encoder produced
    let (d, used) = decode(&bytes);
    assert!(d == Ok(v), "C08/varint: decoder rejects or mis-reads a canonical variable byte integer that the encoder emits");
    assert!(used == enc.len(), "C08/varint: decoder consumes exactly the encoded bytes");
    kani::cover!(v == MQTT_VARINT_MAX, "largest value");
    kani::cover!(v == 0x20_0000, "smallest 4-byte value");
    kani::cover!(enc.len() == 2);
}

// @harness props=C08,C04 tier=quick layer=L1
// @harness funcs="read_mqtt_u32_varint"
// @harness sym="5 input bytes, all values" bounds="exhaustive over every 5-byte prefix"
#[kani::proof]
#[kani::unwind(6)]
fn c08_varint_decode_any_bytes() {
    let bytes: [u8; 5] = kani::any();
    let (d, used) = decode(&bytes);
    let mut c = Cursor::new(&bytes);
    let rv = c.varint();
    match d {
        Ok(v) => {
            assert!(c.ok, "C08/varint: a non-canonical or over-long variable byte integer was accepted");
            assert!(v == rv, "C08/varint: accepted value differs from the reference decoding");
            assert!(used == c.i && used <= 4, "C08/varint: consumed length");
            assert!(v <= MQTT_VARINT_MAX);
        }
        Err(e) => {
            assert!(e == 2, "C08/varint: only the invalid-encoding error, never a read past 4 bytes");
            assert!(!c.ok, "C08/varint: a canonical variable byte integer of at most 4 bytes was rejected");
        }
    }
    kani::cover!(d.is_ok() && used == 4);
    kani::cover!(d.is_err());
}
