//! L2 harnesses on the real `Outbound` (transmit arena + the three in-flight lists).
//! Shapes (number of entries, lengths, ids) are concrete; send states, arena bytes, progress
//! values and which entry is hit are symbolic.  These discharge the clauses K1..K7 that the L3
//! harnesses assume of the abstract outbound (DESIGN.md 2.5).
use super::*;
use crate::packets::Subscribe;
use crate::properties::Properties;
use crate::types::TopicFilter;

/// Observers for harnesses in other modules (the lists are private to outbound.rs).
pub(crate) fn peek_control(ob: &Outbound<'_>, i: usize) -> Option<ControlAction> {
    ob.pending_control.get(i).map(|e| e.action)
}
pub(crate) fn peek_release(ob: &Outbound<'_>, i: usize) -> Option<u16> {
    ob.pending_release.get(i).map(|e| e.packet_id)
}
pub(crate) fn peek_retained(ob: &Outbound<'_>, i: usize) -> Option<(u16, usize, usize)> {
    ob.retained.get(i).map(|e| (e.packet_id, e.offset, e.len))
}
pub(crate) fn set_retained_state(ob: &mut Outbound<'_>, i: usize, s: SendState) {
    ob.retained[i].state = s;
}
pub(crate) fn set_release_state(ob: &mut Outbound<'_>, i: usize, s: SendState) {
    ob.pending_release[i].state = s;
}
pub(crate) fn arena<'b>(ob: &'b Outbound<'_>) -> &'b [u8] {
    ob.buf
}

pub(crate) fn any_state(len: usize) -> SendState {
    match kani::any::<u8>() % 3 {
        0 => {
            let w: usize = kani::any();
            kani::assume(w < len);
            SendState::Write { written: w }
        }
        1 => SendState::Flush,
        _ => SendState::Sent,
    }
}

fn ack(id: u16) -> ControlAction {
    ControlAction::PubAck { packet_id: id, reason: ReasonCode::Success }
}

/// control: PubAck(21), PingReq ; release: 31, 32 ; retained: 41 (len 3 @0), 42 (len 4 @3)
fn shape_2_2_2<'a>(tx: &'a mut [u8; 16]) -> Outbound<'a> {
    let mut ob = Outbound::new(tx);
    ob.queue_control(ack(21)).unwrap();
    ob.queue_control(ControlAction::PingReq).unwrap();
    ob.queue_release(31, ReasonCode::Success).unwrap();
    ob.queue_release(32, ReasonCode::Success).unwrap();
    ob.retain_packet(41, 0, 3).unwrap();
    ob.retain_packet(42, 3, 4).unwrap();
    ob
}

fn randomize_states(ob: &mut Outbound<'_>) {
    ob.pending_control[0].state = any_state(5);
    ob.pending_control[1].state = any_state(2);
    ob.pending_release[0].state = any_state(4);
    ob.pending_release[1].state = any_state(4);
    ob.retained[0].state = any_state(3);
    ob.retained[1].state = any_state(4);
}

fn states(ob: &Outbound<'_>) -> [SendState; 6] {
    [
        ob.pending_control[0].state,
        ob.pending_control[1].state,
        ob.pending_release[0].state,
        ob.pending_release[1].state,
        ob.retained[0].state,
        ob.retained[1].state,
    ]
}

fn in_progress(s: SendState) -> bool {
    match s {
        SendState::Write { written } => written > 0,
        SendState::Flush => true,
        SendState::Sent => false,
    }
}
fn fresh(s: SendState) -> bool {
    matches!(s, SendState::Write { written: 0 })
}

/// index (0..6, in control->release->retained order) of the entry a step refers to
fn step_index(step: &OutboundStep) -> usize {
    match step {
        OutboundStep::Control(c) => {
            if c.action == ack(21) {
                0
            } else {
                1
            }
        }
        OutboundStep::Release(r) => {
            if r.packet_id == 31 {
                2
            } else {
                3
            }
        }
        OutboundStep::Retained(r) => {
            if r.packet_id == 41 {
                4
            } else {
                5
            }
        }
    }
}
fn step_state(step: &OutboundStep) -> SendState {
    match step {
        OutboundStep::Control(c) => c.state,
        OutboundStep::Release(r) => r.state,
        OutboundStep::Retained(r) => r.state,
    }
}

// @harness props=C01,C02,C16,C13,C15 tier=quick layer=L2
// @harness funcs="Outbound::next_step, SendState::matches_priority, is_fresh, is_in_progress"
// @harness sym="send state of each of 6 entries (Write{w}, Flush, Sent; w symbolic)" bounds="2 control + 2 release + 2 retained entries"
#[kani::proof]
#[kani::unwind(8)]
fn c01_next_step_priority() {
    let mut tx: [u8; 16] = kani::any();
    let mut ob = shape_2_2_2(&mut tx);
    randomize_states(&mut ob);
    let st = states(&ob);
    // reference: first in-progress entry in list order, else first fresh entry
    let mut want: Option<usize> = None;
    let mut i = 0;
    while i < 6 {
        if want.is_none() && in_progress(st[i]) {
            want = Some(i);
        }
        i += 1;
    }
    if want.is_none() {
        let mut j = 0;
        while j < 6 {
            if want.is_none() && fresh(st[j]) {
                want = Some(j);
            }
            j += 1;
        }
    }
    let got = ob.next_step();
    match (got, want) {
        (None, None) => {}
        (Some(step), Some(w)) => {
            let gi = step_index(&step);
            assert!(step_state(&step) != SendState::Sent, "C02/K1: an entry already sent on this connection is offered again");
            assert!(
                !(in_progress(st[w]) && !in_progress(st[gi])),
                "C01/K1: a fresh packet is offered while another packet is partially written"
            );
            assert!(gi == w, "C01/K1: next_step order is in-progress first, then control -> release -> retained, each front to back");
            assert!(step_state(&step) == st[gi], "C13/K1: the step carries the recorded progress of its entry");
            if let OutboundStep::Retained(r) = step {
                assert!(r.offset == ob.retained[gi - 4].offset && r.len == ob.retained[gi - 4].len, "C01/K1: step refers to the entry's bytes");
            }
        }
        (None, Some(_)) => assert!(false, "C16/K1: pending work exists but nothing is offered"),
        (Some(_), None) => assert!(false, "C02/K1: something is offered although everything is sent"),
    }
    kani::cover!(want == Some(5));
    kani::cover!(want.is_none());
    kani::cover!(matches!(want, Some(w) if in_progress(st[w]) && w >= 2 && fresh(st[0])));
}

// @harness props=C01,C13 tier=quick layer=L2
// @harness funcs="Outbound::set_control_written, set_release_written, set_retained_written, SendState::set_written"
// @harness sym="states of 6 entries, target entry (6), written, len" bounds="2+2+2 entries"
#[kani::proof]
#[kani::unwind(8)]
fn c01_set_written_only_target() {
    let mut tx: [u8; 16] = kani::any();
    let orig = tx;
    let mut ob = shape_2_2_2(&mut tx);
    randomize_states(&mut ob);
    let before = states(&ob);
    let which: usize = kani::any();
    kani::assume(which < 6);
    let w: usize = kani::any();
    let len: usize = kani::any();
    kani::assume(len >= 1 && len <= 9);
    let found = match which {
        0 => ob.set_control_written(ack(21), w, len),
        1 => ob.set_control_written(ControlAction::PingReq, w, len),
        2 => ob.set_release_written(31, w, len),
        3 => ob.set_release_written(32, w, len),
        4 => ob.set_retained_written(41, w, len),
        _ => ob.set_retained_written(42, w, len),
    };
    assert!(found, "K2: entry is found");
    let after = states(&ob);
    let mut i = 0;
    while i < 6 {
        if i == which {
            let want = if w >= len { SendState::Flush } else { SendState::Write { written: w } };
            assert!(after[i] == want, "C13/K2: recorded progress is Write{w} while w < len, Flush once complete");
        } else {
            assert!(after[i] == before[i], "C01/K2: recording progress of one packet changes another entry");
        }
        i += 1;
    }
    assert!(ob.buf[0] == orig[0] && ob.buf[6] == orig[6] && ob.used == 7, "C17/K2: progress bookkeeping leaves the arena alone");
    assert!(!ob.set_retained_written(99, w, len) && !ob.set_release_written(99, w, len), "K2: unknown id is reported");
    kani::cover!(w >= len);
    kani::cover!(w < len && which == 5);
}

fn flush_body(which: usize) {
    let mut tx: [u8; 16] = kani::any();
    let mut ob = shape_2_2_2(&mut tx);
    if which < 2 {
        // Vec::retain over symbolic states does not finish (300 s): concrete, reachable states
        ob.pending_control[which].state = SendState::Flush;
        ob.pending_release[1].state = SendState::Sent;
        ob.retained[0].state = SendState::Sent;
    } else {
        randomize_states(&mut ob);
    }
    // control entries are removed as soon as they are Sent, so none is Sent in a reachable state
    kani::assume(ob.pending_control[0].state != SendState::Sent && ob.pending_control[1].state != SendState::Sent);
    let before = states(&ob);
    let found = match which {
        0 => ob.flush_control(ack(21)),
        1 => ob.flush_control(ControlAction::PingReq),
        2 => ob.flush_release(31),
        3 => ob.flush_release(32),
        4 => ob.flush_retained(41),
        _ => ob.flush_retained(42),
    };
    assert!(found, "K3: entry is found");
    if which < 2 {
        assert!(ob.pending_control.len() == 1, "C04/K3: a completed acknowledgement leaves the queue (and only it)");
        let other = if which == 0 { ControlAction::PingReq } else { ack(21) };
        assert!(ob.pending_control[0].action == other && ob.pending_control[0].state == before[1 - which], "K3: the other control entry is untouched");
    } else {
        assert!(ob.pending_control.len() == 2, "K3: control queue untouched");
    }
    assert!(ob.pending_release.len() == 2 && ob.retained.len() == 2, "C02/K3: completing a transmission removes nothing that awaits an acknowledgement");
    let after_rel = [ob.pending_release[0].state, ob.pending_release[1].state, ob.retained[0].state, ob.retained[1].state];
    let mut i = 2;
    while i < 6 {
        if i == which {
            assert!(after_rel[i - 2] == SendState::Sent, "C02/K3: a completed packet is marked Sent");
        } else {
            assert!(after_rel[i - 2] == before[i], "K3: other entries keep their state");
        }
        i += 1;
    }
}

// @harness props=C02,C01,C16,C04 tier=quick layer=L2
// @harness funcs="Outbound::flush_control (heapless::Vec::retain)"
// @harness sym="arena bytes" bounds="2+2+2 entries in concrete reachable states; flushed entry: each of the 2 control entries in turn"
#[kani::proof]
#[kani::unwind(10)]
fn c02_flush_marks_sent_control() {
    flush_body(0);
    flush_body(1);
}

// @harness props=C02,C01,C16,C03 tier=quick layer=L2
// @harness funcs="Outbound::flush_release, flush_retained"
// @harness sym="states of 6 entries" bounds="2+2+2 entries; flushed entry: each of the 2 release and 2 retained entries (concrete, one after the other)"
#[kani::proof]
#[kani::unwind(10)]
fn c02_flush_marks_sent_inflight() {
    flush_body(2);
    flush_body(3);
    flush_body(4);
    flush_body(5);
}

// K4 (at most one packet is partially written) is not a separate harness: it follows from K1
// (next_step offers the in-progress entry first: c01_next_step_priority) and K2 (recording
// progress changes only the offered entry: c01_set_written_only_target).  A direct inductive
// harness (symbolic step fed back into set_*_written/flush_*) did not finish in 300 s.

// @harness props=C01,C02,C03,C05,C12,C17 tier=quick layer=L2
// @harness funcs="Outbound::arm_replay, mark_retained_dup, has_pending_state"
// @harness sym="states of 6 entries, all 16 arena bytes" bounds="2+2+2 entries, 16-byte arena"
#[kani::proof]
#[kani::unwind(18)]
fn c01_arm_replay_resets_everything() {
    let mut tx: [u8; 16] = kani::any();
    let orig = tx;
    let mut ob = shape_2_2_2(&mut tx);
    randomize_states(&mut ob);
    ob.arm_replay();
    let s = states(&ob);
    let mut i = 0;
    while i < 6 {
        assert!(s[i] == SendState::Write { written: 0 }, "C01/K5: after arming replay every queued packet restarts at byte 0");
        i += 1;
    }
    assert!(ob.pending_control.len() == 2 && ob.pending_release.len() == 2 && ob.retained.len() == 2, "C02/K5: arming replay drops nothing");
    assert!(ob.pending_release[0].packet_id == 31 && ob.pending_release[1].packet_id == 32, "C03/K5: release order kept");
    assert!(ob.retained[0].packet_id == 41 && ob.retained[1].packet_id == 42, "C02/K5: retained order kept");
    let mut k = 0;
    while k < 16 {
        if k == 0 || k == 3 {
            assert!(ob.buf[k] == orig[k] | 0x08, "C17/K5: replay sets exactly bit 3 of the first byte of each retained packet");
        } else {
            assert!(ob.buf[k] == orig[k], "C17/K5: replay alters a byte other than the first byte of a retained packet");
        }
        k += 1;
    }
    assert!(ob.used == 7);
}

// @harness props=C07,C18 tier=quick layer=L2
// @harness funcs="Outbound::has_retained, has_pending_release, retained_len, pending_release_len, is_quiescent"
// @harness sym="queried id (u16), send state of all 6 entries" bounds="2 control + 2 release + 2 retained entries"
#[kani::proof]
#[kani::unwind(8)]
fn c07_membership_queries_exact() {
    // The in-flight queries are used as observers by the handle_packet lemmas and decide both
    // identifier allocation (C07) and handle status (C18): they must be exact list membership,
    // whatever the send state of an entry.
    let mut tx: [u8; 16] = kani::any();
    let mut ob = shape_2_2_2(&mut tx);
    randomize_states(&mut ob);
    let id: u16 = kani::any();
    assert!(ob.has_retained(id) == (id == 41 || id == 42), "C07/C18: has_retained is not exact membership of the retained list");
    assert!(ob.has_pending_release(id) == (id == 31 || id == 32), "C07/C18: has_pending_release is not exact membership of the list of exchanges awaiting PUBCOMP (whatever the PUBREL's send state)");
    assert!(ob.retained_len() == 2 && ob.pending_release_len() == 2 && ob.pending_control_len() == 2 && !ob.is_quiescent());
}

// @harness props=C01,C12 tier=quick layer=L2
// @harness funcs="Outbound::arm_replay (empty), Outbound::clear"
// @harness sym="arena bytes" bounds="empty lists"
#[kani::proof]
#[kani::unwind(18)]
fn c01_arm_replay_empty_is_noop() {
    let mut tx: [u8; 16] = kani::any();
    let orig = tx;
    let mut ob = Outbound::new(&mut tx);
    ob.arm_replay();
    assert!(ob.is_quiescent() && ob.next_step().is_none() && ob.used == 0);
    let mut k = 0;
    while k < 16 {
        assert!(ob.buf[k] == orig[k], "C17: arming replay on an idle session touches no byte");
        k += 1;
    }
}

// ---------------------------------------------------------------------------------------------
// C17: compaction
// ---------------------------------------------------------------------------------------------
fn compact_body(l: [usize; 3], which: usize) {
    let mut tx: [u8; 16] = kani::any();
    let orig = tx;
    let ids: [u16; 3] = [7, 9, 11];
    let mut ob = Outbound::new(&mut tx);
    let os = [0, l[0], l[0] + l[1]];
    ob.retain_packet(ids[0], os[0], l[0]).unwrap();
    ob.retain_packet(ids[1], os[1], l[1]).unwrap();
    ob.retain_packet(ids[2], os[2], l[2]).unwrap();
    ob.retained[0].state = SendState::Sent;
    ob.retained[1].state = SendState::Write { written: 1 };
    ob.retained[2].state = SendState::Flush;
    let st = [ob.retained[0].state, ob.retained[1].state, ob.retained[2].state];
    assert!(ob.ack_packet(ids[which]), "C02: acknowledging a retained id succeeds");
    assert!(ob.retained.len() == 2, "C02: exactly one entry is removed");
    let mut k = 0usize;
    let mut pos = 0usize;
    let mut cursor = 0usize;
    while k < 3 {
        if k != which {
            let e = ob.retained[pos];
            assert!(e.packet_id == ids[k] && e.len == l[k], "C02/K6: the remaining entries keep identity and order");
            assert!(e.state == st[k], "C13/K6: the remaining entries keep their send progress");
            assert!(e.offset == cursor, "C17/K6: offsets are the prefix sums after compaction");
            let mut i = 0;
            while i < l[k] {
                assert!(ob.buf[e.offset + i] == orig[os[k] + i], "C17/K6: compaction altered the bytes of an unacknowledged packet");
                i += 1;
            }
            cursor += l[k];
            pos += 1;
        }
        k += 1;
    }
    assert!(ob.used == cursor, "C17/K6: used == sum of remaining lengths");
    assert!(ob.scratch_len() == 16 - cursor, "C17: freed bytes are available again");
}

// @harness props=C17,C02,C01 tier=quick layer=L2
// @harness funcs="Outbound::ack_packet, compact, heapless::Vec::remove, copy_within"
// @harness sym="16 arena bytes" bounds="3 retained packets of lengths 2,3,4; first one acknowledged"
#[kani::proof]
#[kani::unwind(6)]
fn c17_compact_preserves_ack0() {
    compact_body([2, 3, 4], 0);
}
// @harness props=C17,C02 tier=quick layer=L2
// @harness funcs="Outbound::ack_packet, compact, heapless::Vec::remove, copy_within"
// @harness sym="16 arena bytes" bounds="3 retained packets of lengths 2,3,4; middle one acknowledged"
#[kani::proof]
#[kani::unwind(6)]
fn c17_compact_preserves_ack1() {
    compact_body([2, 3, 4], 1);
}
// @harness props=C17,C02 tier=quick layer=L2
// @harness funcs="Outbound::ack_packet, compact, heapless::Vec::remove, copy_within"
// @harness sym="16 arena bytes" bounds="3 retained packets of lengths 4,2,5; last one acknowledged"
#[kani::proof]
#[kani::unwind(7)]
fn c17_compact_preserves_ack2() {
    compact_body([4, 2, 5], 2);
}
// @harness props=C17,C02 tier=thorough layer=L2
// @harness funcs="Outbound::ack_packet, compact, heapless::Vec::remove, copy_within"
// @harness sym="16 arena bytes" bounds="3 retained packets of lengths 5,1,6; first one acknowledged (overlapping move)"
#[kani::proof]
#[kani::unwind(8)]
fn c17_compact_preserves_overlap() {
    compact_body([5, 1, 6], 0);
}

fn capacity_body(order: [u16; 2]) {
    let mut tx = [0x5Au8; 16];
    let mut ob = Outbound::new(&mut tx);
    ob.retain_packet(7, 0, 7).unwrap();
    ob.retain_packet(9, 7, 9).unwrap();
    ob.queue_release(20, ReasonCode::Success).unwrap();
    assert!(!ob.can_retain(), "C17: a full arena cannot retain");
    assert!(ob.scratch_len() == 0 && !ob.is_quiescent());
    assert!(ob.ack_packet(order[0]));
    assert!(ob.ack_packet(order[1]));
    assert!(ob.ack_release(20));
    assert!(ob.used == 0 && ob.retained.is_empty() && ob.pending_release.is_empty(), "C17: everything acknowledged leaves nothing behind");
    assert!(ob.scratch_len() == 16 && ob.can_retain() && !ob.retained_full(), "C17: capacity equals that of a new session");
    assert!(ob.is_quiescent() && ob.next_step().is_none(), "C16: quiescent");
}

// @harness props=C17,C16 tier=quick layer=L2
// @harness funcs="Outbound::ack_packet, compact, ack_release, can_retain, scratch_len, is_quiescent"
// @harness sym="(none: bookkeeping only)" bounds="2 retained packets filling a 16-byte arena + 1 release entry; acknowledged in order; three acknowledgements in a row exceed 280 s / memory even when concrete (Vec::remove memmove model)"
#[kani::proof]
#[kani::unwind(6)]
fn c17_capacity_recovered() {
    capacity_body([7, 9]);
}

// @harness props=C17,C16 tier=quick layer=L2
// @harness funcs="Outbound::ack_packet, compact, ack_release, can_retain, scratch_len, is_quiescent"
// @harness sym="(none: bookkeeping only)" bounds="2 retained packets filling a 16-byte arena + 1 release entry; acknowledged in reverse order"
#[kani::proof]
#[kani::unwind(6)]
fn c17_capacity_recovered_rev() {
    capacity_body([9, 7]);
}

// @harness props=C16,C17 tier=quick layer=L2
// @harness funcs="Outbound::is_quiescent, has_pending_state, retain_packet (list full)"
// @harness sym="which list holds an entry" bounds="0 or 1 entry per list; 9th retain"
#[kani::proof]
#[kani::unwind(11)]
fn c16_quiescent_iff_empty() {
    let mut tx = [0u8; 32];
    let mut ob = Outbound::new(&mut tx);
    let c: bool = kani::any();
    let r: bool = kani::any();
    let p: bool = kani::any();
    if c {
        ob.queue_control(ControlAction::PingReq).unwrap();
    }
    if r {
        ob.queue_release(5, ReasonCode::Success).unwrap();
    }
    if p {
        ob.retain_packet(6, 0, 2).unwrap();
    }
    assert!(ob.is_quiescent() == (!c && !r && !p), "C16: quiescent iff all three lists are empty");
    // a full retained list refuses without touching `used`
    let mut ob2_tx = [0u8; 32];
    let mut ob2 = Outbound::new(&mut ob2_tx);
    let mut i = 0u16;
    while i < 8 {
        ob2.retain_packet(100 + i, 2 * i as usize, 2).unwrap();
        i += 1;
    }
    assert!(ob2.retained_full() && !ob2.can_retain());
    let used = ob2.used;
    assert!(ob2.retain_packet(200, 16, 4).is_err(), "C17: ninth retained packet is refused");
    assert!(ob2.used == used && ob2.retained.len() == 8, "C17: a refused retain leaves no trace");
}

// ---------------------------------------------------------------------------------------------
// C03: release order;  C02: retained order
// ---------------------------------------------------------------------------------------------
fn release_order_body(which: u16) {
    let mut tx = [0u8; 8];
    let mut ob = Outbound::new(&mut tx);
    ob.queue_release(31, ReasonCode::Success).unwrap();
    ob.queue_release(32, ReasonCode::Success).unwrap();
    ob.queue_release(33, ReasonCode::Success).unwrap();
    assert!(ob.ack_release(which), "C03: PUBCOMP for a pending id is accepted");
    // direct field reads (every further list walk costs minutes after a Vec::remove)
    assert!(ob.pending_release.len() == 2, "C03: PUBCOMP ends exactly one exchange");
    let a = ob.pending_release[0].packet_id;
    let b = ob.pending_release[1].packet_id;
    assert!(a != which && b != which, "C03: PUBCOMP ends the exchange it names");
    assert!(a < b, "C03/order: replayed PUBRELs keep the order in which the PUBRECs were received");
}

// @harness props=C03 tier=quick layer=L2
// @harness funcs="Outbound::queue_release, ack_release (heapless::Vec::remove); replay order = list order by c01_next_step_priority / c01_arm_replay_resets_everything"
// @harness sym="(none: shape and completed exchange concrete)" bounds="3 exchanges awaiting PUBCOMP; PUBCOMP for the first (one Vec::remove per harness: three in a row exhaust memory, 18 GB measured)"
#[kani::proof]
#[kani::unwind(6)]
fn c03_release_order_preserved_0() {
    release_order_body(31);
}

// @harness props=C03 tier=quick layer=L2
// @harness funcs="Outbound::queue_release, ack_release (heapless::Vec::remove); replay order = list order by c01_next_step_priority / c01_arm_replay_resets_everything"
// @harness sym="(none: shape and completed exchange concrete)" bounds="3 exchanges awaiting PUBCOMP; PUBCOMP for the second (one Vec::remove per harness: three in a row exhaust memory, 18 GB measured)"
#[kani::proof]
#[kani::unwind(6)]
fn c03_release_order_preserved_1() {
    release_order_body(32);
}

// @harness props=C03 tier=quick layer=L2
// @harness funcs="Outbound::queue_release, ack_release (heapless::Vec::remove); replay order = list order by c01_next_step_priority / c01_arm_replay_resets_everything"
// @harness sym="(none: shape and completed exchange concrete)" bounds="3 exchanges awaiting PUBCOMP; PUBCOMP for the third (one Vec::remove per harness: three in a row exhaust memory, 18 GB measured)"
#[kani::proof]
#[kani::unwind(6)]
fn c03_release_order_preserved_2() {
    release_order_body(33);
}

// @harness props=C02,C05 tier=quick layer=L2
// @harness funcs="Outbound::retain_packet, ack_packet, next_step, flush_retained, arm_replay"
// @harness sym="arena bytes" bounds="3 retained packets; each of them acknowledged in turn (concrete)"
#[kani::proof]
#[kani::unwind(6)]
fn c02_order_is_insertion_order() {
    order_body(41);
    order_body(42);
    order_body(43);
}

fn order_body(which: u16) {
    let mut tx: [u8; 16] = kani::any();
    let mut ob = Outbound::new(&mut tx);
    ob.retain_packet(41, 0, 2).unwrap();
    ob.retain_packet(42, 2, 3).unwrap();
    ob.retain_packet(43, 5, 4).unwrap();
    // transmit all three in order
    let mut want = 41u16;
    while want <= 43 {
        match ob.next_step() {
            Some(OutboundStep::Retained(r)) => assert!(r.packet_id == want, "C02/order: packets are sent in the order they were accepted"),
            _ => assert!(false, "C02/order: a retained packet is due"),
        }
        ob.flush_retained(want);
        want += 1;
    }
    assert!(ob.next_step().is_none(), "C02: nothing is re-sent within a connection");
    assert!(ob.ack_packet(which));
    assert!(ob.next_step().is_none(), "C02: an acknowledgement triggers no retransmission");
    ob.arm_replay();
    let first = if which == 41 { 42 } else { 41 };
    let second = if which == 43 { 42 } else { 43 };
    match ob.next_step() {
        Some(OutboundStep::Retained(r)) => assert!(r.packet_id == first, "C02/order: replay keeps acceptance order"),
        _ => assert!(false, "C02: replay offers the unacknowledged packets"),
    }
    ob.flush_retained(first);
    match ob.next_step() {
        Some(OutboundStep::Retained(r)) => assert!(r.packet_id == second, "C02/order: replay keeps acceptance order (2)"),
        _ => assert!(false, "C02: replay offers the second unacknowledged packet"),
    }
    ob.flush_retained(second);
    assert!(ob.next_step().is_none(), "C02: each packet is replayed exactly once; the acknowledged one never");
}

// @harness props=C04,C10 tier=quick layer=L2
// @harness funcs="Outbound::queue_control, next_step, has_pending_pingreq, flush_control"
// @harness sym="(none: queue discipline, concrete ids)" bounds="2 owed acknowledgements + PINGREQ"
#[kani::proof]
#[kani::unwind(6)]
fn c04_control_queue_is_fifo() {
    let mut tx = [0u8; 8];
    let mut ob = Outbound::new(&mut tx);
    let acts = [
        ControlAction::PubAck { packet_id: 5, reason: ReasonCode::Success },
        ControlAction::PingReq,
        ControlAction::PubComp { packet_id: 5, reason: ReasonCode::PacketIdNotFound },
    ];
    assert!(!ob.has_pending_pingreq());
    ob.queue_control(acts[0]).unwrap();
    ob.queue_control(acts[1]).unwrap();
    ob.queue_control(acts[2]).unwrap();
    assert!(ob.has_pending_pingreq(), "C10: a queued PINGREQ is reported");
    assert!(
        ob.pending_control[0].action == acts[0] && ob.pending_control[1].action == acts[1] && ob.pending_control[2].action == acts[2],
        "C04/order: an owed acknowledgement is appended at the back of the queue"
    );
    match ob.next_step() {
        Some(OutboundStep::Control(c)) => assert!(c.action == acts[0], "C04/order: acknowledgements leave in arrival order"),
        _ => assert!(false, "C04: an owed acknowledgement is offered"),
    }
    // one removal only: three Vec::retain calls in a row do not finish (300 s) even when concrete
    assert!(ob.flush_control(acts[0]));
    assert!(
        ob.pending_control.len() == 2 && ob.pending_control[0].action == acts[1] && ob.pending_control[1].action == acts[2],
        "C04/order: completing one acknowledgement keeps the order of the others"
    );
    match ob.next_step() {
        Some(OutboundStep::Control(c)) => assert!(c.action == acts[1], "C04/order: the next owed packet follows"),
        _ => assert!(false, "C04: an owed packet is offered"),
    }
    ob.pending_control[0].state = SendState::Sent;
    assert!(!ob.has_pending_pingreq(), "C10: a PINGREQ that has been sent is no longer pending");
}

// @harness props=C04 tier=quick layer=L2
// @harness funcs="Outbound::queue_control (full queue)"
// @harness sym="(none)" bounds="8 owed packets + 1"
#[kani::proof]
#[kani::unwind(11)]
fn c04_control_queue_overflow_reported() {
    let mut tx = [0u8; 8];
    let mut ob = Outbound::new(&mut tx);
    let mut k = 0u16;
    while k < 8 {
        ob.queue_control(ControlAction::PubAck { packet_id: k + 1, reason: ReasonCode::Success }).unwrap();
        k += 1;
    }
    assert!(ob.queue_control(ControlAction::PingReq).is_err(), "C04: a ninth owed packet is reported as exhaustion, not dropped silently");
    assert!(ob.pending_control.len() == 8);
}

// ---------------------------------------------------------------------------------------------
// K7: scratch and encoders write behind the retained prefix
// ---------------------------------------------------------------------------------------------
// @harness props=C17,C12 tier=quick layer=L2
// @harness funcs="Outbound::scratch_space, compact, scratch_len, can_retain"
// @harness sym="arena bytes, every byte written into the scratch area" bounds="2 retained packets (3+4 bytes) with a gap, 16-byte arena"
#[kani::proof]
#[kani::unwind(18)]
fn c17_scratch_disjoint() {
    let mut tx: [u8; 16] = kani::any();
    let orig = tx;
    let mut ob = Outbound::new(&mut tx);
    ob.retain_packet(7, 0, 2).unwrap();
    ob.retain_packet(8, 2, 3).unwrap();
    ob.retain_packet(9, 5, 4).unwrap();
    assert!(ob.ack_packet(7));
    // retained: 8 (3 bytes, now at 0) and 9 (4 bytes, now at 3)
    let sl = ob.scratch_len();
    assert!(sl == 16 - 7, "C17/K7: scratch length = capacity - retained bytes");
    {
        let s = ob.scratch_space();
        assert!(s.len() == sl, "C17/K7: scratch_space() is exactly the free tail");
        let fill: u8 = kani::any();
        let mut i = 0;
        while i < s.len() {
            s[i] = fill;
            i += 1;
        }
    }
    let mut i = 0;
    while i < 3 {
        assert!(ob.buf[ob.retained[0].offset + i] == orig[2 + i], "C17/K7: QoS 0 / CONNECT traffic in the scratch area altered a retained packet");
        i += 1;
    }
    let mut j = 0;
    while j < 4 {
        assert!(ob.buf[ob.retained[1].offset + j] == orig[5 + j], "C17/K7: QoS 0 / CONNECT traffic in the scratch area altered a retained packet");
        j += 1;
    }
}

// @harness props=C17,C01 tier=quick layer=L2
// @harness funcs="Outbound::encode_packet, MqttSerializer::encode_with_offset, finalize, retain_packet"
// @harness sym="arena bytes, packet id of the new SUBSCRIBE" bounds="1 retained packet of 5 bytes, SUBSCRIBE with 1-byte filter, 24-byte arena"
#[kani::proof]
#[kani::unwind(8)]
fn c17_encode_behind_prefix() {
    let mut tx: [u8; 24] = kani::any();
    let orig = tx;
    let mut ob = Outbound::new(&mut tx);
    ob.retain_packet(7, 0, 5).unwrap();
    let id: u16 = kani::any();
    let topics = [TopicFilter::new("a")];
    let r = ob.encode_packet(&Subscribe { packet_id: id, dup: false, properties: Properties::from_slice(&[]), topics: &topics });
    let (offset, len) = r.expect("C17: SUBSCRIBE fits");
    assert!(offset >= 5, "C17/K7: a new packet is encoded inside the retained prefix");
    assert!(offset + len <= 24, "C17/K7: encoded packet within the arena");
    assert!(len == 9 && ob.buf[offset] == 0x82 && ob.buf[offset + 1] == 7, "C09: SUBSCRIBE header");
    assert!(ob.buf[offset + 2] == (id >> 8) as u8 && ob.buf[offset + 3] == id as u8, "C09: packet id");
    let mut i = 0;
    while i < 5 {
        assert!(ob.buf[i] == orig[i], "C17/K7: encoding a new packet altered a retained one");
        i += 1;
    }
    ob.retain_packet(id, offset, len).unwrap();
    assert!(ob.used == offset + len, "C17: watermark covers the new packet");
    // the gap in front of the right-aligned fixed header is closed by the next compaction
    let s = ob.scratch_len();
    assert!(s == 24 - 5 - 9, "C17: the header gap is not leaked");
}

// ---------------------------------------------------------------------------------------------
// C14: mandatory acknowledgements versus the broker's Maximum Packet Size
// ---------------------------------------------------------------------------------------------
fn any_reason() -> ReasonCode {
    ReasonCode::from(kani::any::<u8>())
}

// @harness props=C14,C04 tier=quick layer=L2
// @harness funcs="check_control_packet_size, serialize_control_packet, encode_control_packet, require_packet_size, MqttSerializer::encode (PubAck/PubRec/PubComp/PingReq)"
// @harness sym="action kind (4), packet id, reason code, maximum packet size (Option<u32>)" bounds="9-byte control buffer"
#[kani::proof]
#[kani::unwind(8)]
fn c14_control_size_gate() {
    let id: u16 = kani::any();
    let reason = any_reason();
    let action = match kani::any::<u8>() % 4 {
        0 => ControlAction::PubAck { packet_id: id, reason },
        1 => ControlAction::PubRec { packet_id: id, reason },
        2 => ControlAction::PubComp { packet_id: id, reason },
        _ => ControlAction::PingReq,
    };
    let max: Option<u32> = if kani::any() { Some(kani::any()) } else { None };
    let check = check_control_packet_size(max, action);
    let mut buf = [0u8; CONTROL_PACKET_LEN];
    let ser = serialize_control_packet::<()>(&mut buf, action, max);
    let real_len = if matches!(action, ControlAction::PingReq) { 2usize } else { 5 };
    let too_big = matches!(max, Some(m) if real_len > m as usize);
    assert!(check.is_err() == too_big, "C14: the size check refuses exactly the acknowledgements longer than the maximum");
    match ser {
        Ok(bytes) => {
            assert!(!too_big, "C14: an acknowledgement longer than the broker's Maximum Packet Size is serialised for sending");
            assert!(bytes.len() == real_len, "C09: acknowledgement length");
        }
        Err(e) => {
            assert!(too_big && matches!(e, Error::Resource(ResourceError::PacketTooLarge)), "C14: refusal is PacketTooLarge");
        }
    }
    kani::cover!(too_big);
    kani::cover!(!too_big && max.is_some());
}

// @harness props=C14,C03 tier=quick layer=L2
// @harness funcs="check_pubrel_size, serialize_pubrel, encode_pubrel"
// @harness sym="packet id, maximum packet size" bounds="9-byte control buffer"
#[kani::proof]
#[kani::unwind(8)]
fn c14_pubrel_size_gate() {
    let id: u16 = kani::any();
    let max: Option<u32> = if kani::any() { Some(kani::any()) } else { None };
    let check = check_pubrel_size(max, id, ReasonCode::Success);
    let mut buf = [0u8; CONTROL_PACKET_LEN];
    let ser = serialize_pubrel::<()>(&mut buf, id, ReasonCode::Success, max);
    let too_big = matches!(max, Some(m) if 5 > m as usize);
    assert!(check.is_err() == too_big, "C14: PUBREL size check");
    match ser {
        Ok(b) => {
            assert!(!too_big && b.len() == 5, "C14: PUBREL within the limit");
            assert!(b[0] == 0x62 && b[1] == 3 && b[2] == (id >> 8) as u8 && b[3] == id as u8 && b[4] == 0, "C03/C09: PUBREL carries the identifier of its PUBREC");
        }
        Err(_) => assert!(too_big),
    }
    kani::cover!(too_big);
}

// ---------------------------------------------------------------------------------------------
// C01-O4: the first byte of a replayed packet must still be a legal fixed header
// ---------------------------------------------------------------------------------------------
// @harness props=C01 tier=quick layer=L2
// @harness funcs="Outbound::arm_replay, mark_retained_dup"
// @harness sym="type/flags of the retained packet among PUBLISH QoS 1/2 (+/- retain), SUBSCRIBE, UNSUBSCRIBE" bounds="one retained packet"
// @harness assumes="KNOWN FINDING F7 tagged"
#[kani::proof]
#[kani::unwind(4)]
fn c01_replay_first_byte_is_legal() {
    let mut tx = [0u8; 8];
    let first: u8 = match kani::any::<u8>() % 6 {
        0 => 0x32,
        1 => 0x33,
        2 => 0x34,
        3 => 0x35,
        4 => 0x82,
        _ => 0xA2,
    };
    tx[0] = first;
    let mut ob = Outbound::new(&mut tx);
    ob.retain_packet(1, 0, 4).unwrap();
    ob.retained[0].state = SendState::Sent;
    ob.arm_replay();
    let b = ob.buf[0];
    assert!(b >> 4 == first >> 4 && b & 0x07 == first & 0x07, "C02/C17: replay changes the type, QoS or retain bits of a retained packet");
    if first >> 4 == 3 {
        assert!(b & 0x08 != 0, "C02: a retransmitted PUBLISH must carry DUP");
    }
    // modulo F7: whatever is replayed differs from the original in bit 3 only
    assert!(b == first | 0x08, "C17: replay alters more than bit 3");
    // strict: SUBSCRIBE / UNSUBSCRIBE have fixed flags 0010 (MQTT 5, 2.1.3); any other value is malformed
    let legal = match b >> 4 {
        3 => true,
        _ => b & 0x0F == 0x02,
    };
    assert!(legal, "KF:F7/replay-dup-on-subscribe C01: a replayed SUBSCRIBE/UNSUBSCRIBE is sent with reserved flag bit 3 set (0x8A / 0xAA)");
}

// ---------------------------------------------------------------------------------------------
// C12: CONNECT has to fit behind the retained data
// ---------------------------------------------------------------------------------------------
// @harness props=C12 tier=quick layer=L2
// @harness funcs="Outbound::scratch_space, compact, MqttSerializer::encode(Connect) into the scratch tail"
// @harness sym="amount of retained data 0..=32 bytes, arena bytes, clean start" bounds="32-byte arena, CONNECT of 19 bytes (needs 22 bytes of scratch: 5 header reserve + 17 body)"
// @harness assumes="KNOWN FINDING F11 tagged"
#[kani::proof]
#[kani::unwind(8)]
fn c12_connect_fits_behind_retained() {
    use crate::packets::Connect;
    use crate::wire::Utf8String;
    let mut tx: [u8; 32] = kani::any();
    let orig = tx;
    let l: usize = kani::any();
    kani::assume(l <= 32);
    let mut ob = Outbound::new(&mut tx);
    if l > 0 {
        ob.retain_packet(7, 0, l).unwrap();
    }
    let props = [crate::Property::ReceiveMaximum(8)];
    let r = {
        let scratch = ob.scratch_space();
        assert!(scratch.len() == 32 - l, "C17/K7: scratch is exactly the tail behind the retained data");
        crate::ser::MqttSerializer::encode(
            scratch,
            &Connect { keepalive: 60, properties: Properties::from_slice(&props), client_id: Utf8String("c"), auth: None, will: None, clean_start: kani::any() },
        )
        .map(|b| b.len())
    };
    // retained bytes are untouched whether or not CONNECT fitted
    if l > 0 {
        assert!(ob.buf[0] == orig[0] && ob.buf[l - 1] == orig[l - 1], "C17/K7: encoding CONNECT altered retained data");
    }
    // 10 11 | 00 04 M Q T T 05 flags 00 3c | 03 21 00 08 | 00 01 c  => 2 + 17 bytes; the encoder
    // reserves 5 bytes for the fixed header in front of the 17-byte body
    let need = 5 + 17;
    match r {
        Ok(n) => assert!(n == 19 && 32 - l >= need, "C12: CONNECT encoded into too small a tail"),
        Err(_) => {
            // modulo F11: it only fails when the tail really is too small
            assert!(32 - l < need, "C12: CONNECT refused although it fits behind the retained data");
            assert!(false, "KF:F11/connect-needs-arena-tail C12: with the transmit arena (nearly) full of retained packets every connect() fails with BufferTooSmall - the session cannot be reconnected");
        }
    }
    kani::cover!(r.is_ok() && l > 0);
}

// @harness props=C06 tier=quick layer=L2
// @harness funcs="Outbound::unresolved_publishes"
// @harness sym="first byte of each of 3 retained packets (all values), number of exchanges awaiting PUBCOMP (0..2)" bounds="3 retained + <= 2 release entries"
#[kani::proof]
#[kani::unwind(6)]
fn c06_unresolved_publishes_counts() {
    let mut tx: [u8; 16] = kani::any();
    let firsts = [tx[0], tx[4], tx[9]];
    let mut ob = Outbound::new(&mut tx);
    ob.retain_packet(3, 0, 4).unwrap();
    ob.retain_packet(4, 4, 5).unwrap();
    ob.retain_packet(5, 9, 3).unwrap();
    let nrel: usize = kani::any();
    kani::assume(nrel <= 2);
    if nrel >= 1 {
        ob.queue_release(9, ReasonCode::Success).unwrap();
    }
    if nrel == 2 {
        ob.queue_release(10, ReasonCode::Success).unwrap();
    }
    let mut want = nrel;
    let mut i = 0;
    while i < 3 {
        if firsts[i] >> 4 == 3 {
            want += 1;
        }
        i += 1;
    }
    assert!(ob.unresolved_publishes() == want, "C06: publishes counted against the Receive Maximum = retained PUBLISH packets + exchanges awaiting PUBCOMP (SUBSCRIBE/UNSUBSCRIBE do not count)");
    kani::cover!(want == 5);
    kani::cover!(want == 0);
}
