//! L1 harnesses on properties.rs: validity table (C19), lazy iteration and reply lookups (C20, C04).
use super::*;
use crate::verif_common::{self as vc, prop_of_kind, ref_encode_prop, ref_prop_id, N_PROP_KINDS};

fn any_ctx() -> PropertyContext {
    match kani::any::<u8>() % 5 {
        0 => PropertyContext::Publish,
        1 => PropertyContext::Subscribe,
        2 => PropertyContext::Unsubscribe,
        3 => PropertyContext::Disconnect,
        _ => PropertyContext::Will,
    }
}

/// MQTT 5 (OASIS, 2019): which properties a *client* may put into PUBLISH (3.3.2.3), SUBSCRIBE
/// (3.8.2.1), UNSUBSCRIBE (3.10.2.1), DISCONNECT (3.14.2.2) and the Will (3.1.3.2), and which
/// values are legal. `None` = the specification does not settle it (either answer accepted).
fn ref_valid(p: &Property<'_>, ctx: PropertyContext) -> Option<bool> {
    let id = ref_prop_id(p);
    let value_ok = match p {
        Property::PayloadFormatIndicator(v) | Property::RequestProblemInformation(v) | Property::RequestResponseInformation(v) => *v <= 1,
        Property::SubscriptionIdentifier(v) => *v >= 1 && *v <= 0x0FFF_FFFF,
        Property::TopicAlias(v) => *v != 0,
        _ => true,
    };
    let allowed = match ctx {
        // 3.3.2.3; a client-to-server PUBLISH must not carry a Subscription Identifier (3.3.4)
        PropertyContext::Publish => matches!(id, 0x01 | 0x02 | 0x03 | 0x08 | 0x09 | 0x23 | 0x26),
        PropertyContext::Will => matches!(id, 0x01 | 0x02 | 0x03 | 0x08 | 0x09 | 0x18 | 0x26),
        PropertyContext::Subscribe => matches!(id, 0x0B | 0x26),
        PropertyContext::Unsubscribe => id == 0x26,
        PropertyContext::Disconnect => {
            if id == 0x1C {
                return None; // Server Reference: defined for DISCONNECT, meant for the server
            }
            matches!(id, 0x11 | 0x1F | 0x26)
        }
    };
    Some(allowed && value_ok)
}

// @harness props=C19 tier=quick layer=L1
// @harness funcs="Property::is_valid_for, Property::has_valid_value, From<&Property> for PropertyIdentifier"
// @harness sym="property kind (27) x scalar value (u8/u16/u32, all values) x context (5)" bounds="exhaustive over kinds, values and contexts; strings fixed (validity does not depend on them)"
#[kani::proof]
fn c19_validity_table() {
    let kind: u8 = kani::any();
    kani::assume(kind < N_PROP_KINDS);
    let p = prop_of_kind(kind, "a", "b", b"c");
    let ctx = any_ctx();
    let got = p.is_valid_for(ctx);
    let id: PropertyIdentifier = (&p).into();
    assert!(id as u32 == ref_prop_id(&p), "C09/property identifier equals the MQTT 5 identifier");
    if let Some(want) = ref_valid(&p, ctx) {
        if want {
            assert!(got, "C19/table: a property MQTT 5 allows a client to send here, with a legal value, is refused");
        } else {
            assert!(!got, "C19/table: a property that is not allowed here (or has an illegal value) is accepted");
        }
    }
    kani::cover!(got && matches!(ctx, PropertyContext::Will));
    kani::cover!(got && matches!(ctx, PropertyContext::Disconnect));
    kani::cover!(!got && matches!(ctx, PropertyContext::Publish));
    kani::cover!(matches!(p, Property::WillDelayInterval(_)) && matches!(ctx, PropertyContext::Will));
}

// @harness props=C19 tier=quick layer=L1
// @harness funcs="Properties::valid_for, Properties::iter (Slice, WithCorrelation), Properties::with_correlation"
// @harness sym="one property of symbolic kind and value; context" bounds="list of length 1 (+ correlation); longer lists with symbolic kinds exhaust memory (13 GB at 10 min, measured)"
#[kani::proof]
#[kani::unwind(4)]
fn c19_valid_for_single() {
    let k0: u8 = kani::any();
    kani::assume(k0 < N_PROP_KINDS);
    let props = [prop_of_kind(k0, "a", "b", b"c")];
    let ctx = any_ctx();
    let each = props[0].is_valid_for(ctx);
    let ps = Properties::from_slice(&props);
    assert!(ps.valid_for(ctx) == each, "C19/valid_for: a one-element list is valid iff its element is");
    kani::cover!(each);
    kani::cover!(!each);
}

// @harness props=C19 tier=quick layer=L1
// @harness funcs="Properties::valid_for, Properties::iter (Slice)"
// @harness sym="values of TopicAlias and PayloadFormatIndicator; context" bounds="list [TopicAlias(v), PayloadFormatIndicator(w)], kinds concrete"
#[kani::proof]
#[kani::unwind(5)]
fn c19_valid_for_is_all() {
    let props = [Property::TopicAlias(kani::any()), Property::PayloadFormatIndicator(kani::any())];
    let ctx = any_ctx();
    let each = props[0].is_valid_for(ctx) && props[1].is_valid_for(ctx);
    let ps = Properties::from_slice(&props);
    assert!(ps.valid_for(ctx) == each, "C19/valid_for: a list is valid iff every element is");
    kani::cover!(each);
    kani::cover!(!each && props[0].is_valid_for(ctx));
}

// ---------------------------------------------------------------------------------------------
// C20 / C04: lookups in an encoded (inbound) property block
// ---------------------------------------------------------------------------------------------

/// One inbound PUBLISH property of a kind chosen symbolically among the kinds a broker may send,
/// with symbolic short contents, encoded by the *reference* encoder.
struct Sym {
    kind: u8, // 0 ResponseTopic, 1 CorrelationData, 2 UserProperty, 3 PayloadFormatIndicator, 4 SubscriptionIdentifier
    s: [u8; 2],
    slen: usize,
    v8: u8,
    v32: u32,
}

fn any_sym(k: u8, slen: usize) -> Sym {
    let s: [u8; 2] = kani::any();
    Sym { kind: k, s, slen, v8: kani::any(), v32: kani::any() }
}

fn put(buf: &mut [u8; 24], n: &mut usize, sym: &Sym) {
    let mut tmp = [0u8; 24];
    let text = &sym.s[..sym.slen];
    let len = match sym.kind {
        0 => {
            // topic: restrict to ASCII so that it is valid UTF-8 whatever the bytes
            let t = unsafe { core::str::from_utf8_unchecked(text) };
            ref_encode_prop(&Property::ResponseTopic(t), &mut tmp)
        }
        1 => ref_encode_prop(&Property::CorrelationData(text), &mut tmp),
        2 => {
            let t = unsafe { core::str::from_utf8_unchecked(text) };
            ref_encode_prop(&Property::ContentType(t), &mut tmp)
        }
        3 => ref_encode_prop(&Property::PayloadFormatIndicator(sym.v8), &mut tmp),
        4 => ref_encode_prop(&Property::SubscriptionIdentifier(sym.v32), &mut tmp),
        _ => ref_encode_prop(&Property::MessageExpiryInterval(sym.v32), &mut tmp),
    };
    let mut i = 0;
    while i < len {
        buf[*n] = tmp[i];
        *n += 1;
        i += 1;
    }
}

fn ascii(sym: &Sym) -> bool {
    sym.s[0] < 0x80 && sym.s[1] < 0x80
}

fn lookup_body(nprops: usize, kinds: [u8; 3]) {
    // concrete lengths keep every offset in the block concrete (a symbolic offset makes the
    // identifier byte of the next property symbolic: 27-way decode, > 300 s); contents stay symbolic
    let syms = [any_sym(kinds[0], 2), any_sym(kinds[1], 1), any_sym(kinds[2], 0)];
    let mut buf = [0u8; 24];
    let mut n = 0usize;
    let mut i = 0;
    while i < nprops {
        if syms[i].kind != 1 {
            kani::assume(ascii(&syms[i]));
        }
        if syms[i].kind == 4 {
            // variable-length encoding: only used as the LAST property of a block so that every
            // offset before it stays concrete
            kani::assume(syms[i].v32 >= 1 && syms[i].v32 <= 0x0FFF_FFFF);
        }
        put(&mut buf, &mut n, &syms[i]);
        i += 1;
    }
    let props = Properties::encoded(&buf[..n]);
    // expected: first of each kind
    let mut want_rt: Option<usize> = None;
    let mut want_cd: Option<usize> = None;
    let mut j = 0;
    while j < nprops {
        if syms[j].kind == 0 && want_rt.is_none() {
            want_rt = Some(j);
        }
        if syms[j].kind == 1 && want_cd.is_none() {
            want_cd = Some(j);
        }
        j += 1;
    }
    match (props.response_topic(), want_rt) {
        (None, None) => {}
        (Some(t), Some(j)) => {
            let w = &syms[j].s[..syms[j].slen];
            assert!(t.len() == w.len(), "C20/lookup: response topic length");
            let tb = t.as_bytes();
            let mut k = 0;
            while k < w.len() {
                assert!(tb[k] == w[k], "C20/lookup: response topic is the first ResponseTopic property, byte for byte");
                k += 1;
            }
        }
        (None, Some(_)) => assert!(false, "C20/lookup: a response topic that was sent is not found"),
        (Some(_), None) => assert!(false, "C20/lookup: a response topic is invented"),
    }
    match (props.correlation_data(), want_cd) {
        (None, None) => {}
        (Some(d), Some(j)) => {
            let w = &syms[j].s[..syms[j].slen];
            assert!(d.len() == w.len(), "C20/lookup: correlation data length");
            let mut k = 0;
            while k < w.len() {
                assert!(d[k] == w[k], "C20/lookup: correlation data is the first CorrelationData property, byte for byte");
                k += 1;
            }
        }
        (None, Some(_)) => assert!(false, "C20/lookup: correlation data that was sent is not found"),
        (Some(_), None) => assert!(false, "C20/lookup: correlation data is invented"),
    }
    // C04: the iterator yields exactly the properties that were sent, in order, then stops
    let mut it = props.iter();
    let mut m = 0;
    while m < nprops {
        let got = it.next();
        let ok = match got {
            Some(Ok(Property::ResponseTopic(t))) => syms[m].kind == 0 && t.len() == syms[m].slen,
            Some(Ok(Property::CorrelationData(d))) => syms[m].kind == 1 && d.len() == syms[m].slen,
            Some(Ok(Property::ContentType(k))) => syms[m].kind == 2 && k.len() == syms[m].slen,
            Some(Ok(Property::PayloadFormatIndicator(v))) => syms[m].kind == 3 && v == syms[m].v8,
            Some(Ok(Property::SubscriptionIdentifier(v))) => syms[m].kind == 4 && v == syms[m].v32,
            Some(Ok(Property::MessageExpiryInterval(v))) => syms[m].kind == 5 && v == syms[m].v32,
            _ => false,
        };
        assert!(ok, "C04/properties: inbound property is not surfaced exactly as sent (kind, order, value)");
        m += 1;
    }
    assert!(it.next().is_none(), "C04/properties: iterator yields nothing beyond the block");
    kani::cover!(syms[0].s[0] != syms[1].s[0], "witness: end reached with differing contents");
}

// @harness props=C20,C04 tier=quick layer=L1
// @harness funcs="Properties::encoded, Properties::iter (Encoded), response_topic, correlation_data, Property::deserialize, MqttDeserializer"
// @harness sym="2 inbound properties (kinds rt+cd; rt=ResponseTopic cd=CorrelationData up=ContentType pf=PayloadFormatIndicator si=SubscriptionIdentifier me=MessageExpiryInterval), contents symbolic bytes (lengths 2,1,0 by position), scalar values symbolic" bounds="2 properties, strings <= 2 bytes, kind sequence concrete (one harness per sequence)"
// @harness assumes="topic/user-property strings ASCII (valid UTF-8 by construction); core::str::from_utf8 replaced by utf8_ok (c08_utf8_ref_equiv)"
#[kani::proof]
#[kani::unwind(8)]
#[kani::stub(core::str::from_utf8, crate::verif_common::stub_from_utf8)]
fn c20_lookup_rt_cd() {
    lookup_body(2, [0, 1, 0]);
}

// @harness props=C20,C04 tier=quick layer=L1
// @harness funcs="Properties::encoded, Properties::iter (Encoded), response_topic, correlation_data, Property::deserialize, MqttDeserializer"
// @harness sym="2 inbound properties (kinds cd+rt; rt=ResponseTopic cd=CorrelationData up=ContentType pf=PayloadFormatIndicator si=SubscriptionIdentifier me=MessageExpiryInterval), contents symbolic bytes (lengths 2,1,0 by position), scalar values symbolic" bounds="2 properties, strings <= 2 bytes, kind sequence concrete (one harness per sequence)"
// @harness assumes="topic/user-property strings ASCII (valid UTF-8 by construction); core::str::from_utf8 replaced by utf8_ok (c08_utf8_ref_equiv)"
#[kani::proof]
#[kani::unwind(8)]
#[kani::stub(core::str::from_utf8, crate::verif_common::stub_from_utf8)]
fn c20_lookup_cd_rt() {
    lookup_body(2, [1, 0, 0]);
}

// @harness props=C20,C04 tier=quick layer=L1
// @harness funcs="Properties::encoded, Properties::iter (Encoded), response_topic, correlation_data, Property::deserialize, MqttDeserializer"
// @harness sym="2 inbound properties (kinds rt+rt; rt=ResponseTopic cd=CorrelationData up=ContentType pf=PayloadFormatIndicator si=SubscriptionIdentifier me=MessageExpiryInterval), contents symbolic bytes (lengths 2,1,0 by position), scalar values symbolic" bounds="2 properties, strings <= 2 bytes, kind sequence concrete (one harness per sequence)"
// @harness assumes="topic/user-property strings ASCII (valid UTF-8 by construction); core::str::from_utf8 replaced by utf8_ok (c08_utf8_ref_equiv)"
#[kani::proof]
#[kani::unwind(8)]
#[kani::stub(core::str::from_utf8, crate::verif_common::stub_from_utf8)]
fn c20_lookup_rt_rt() {
    lookup_body(2, [0, 0, 0]);
}

// @harness props=C20,C04 tier=quick layer=L1
// @harness funcs="Properties::encoded, Properties::iter (Encoded), response_topic, correlation_data, Property::deserialize, MqttDeserializer"
// @harness sym="2 inbound properties (kinds cd+cd; rt=ResponseTopic cd=CorrelationData up=ContentType pf=PayloadFormatIndicator si=SubscriptionIdentifier me=MessageExpiryInterval), contents symbolic bytes (lengths 2,1,0 by position), scalar values symbolic" bounds="2 properties, strings <= 2 bytes, kind sequence concrete (one harness per sequence)"
// @harness assumes="topic/user-property strings ASCII (valid UTF-8 by construction); core::str::from_utf8 replaced by utf8_ok (c08_utf8_ref_equiv)"
#[kani::proof]
#[kani::unwind(8)]
#[kani::stub(core::str::from_utf8, crate::verif_common::stub_from_utf8)]
fn c20_lookup_cd_cd() {
    lookup_body(2, [1, 1, 0]);
}

// @harness props=C20,C04 tier=quick layer=L1
// @harness funcs="Properties::encoded, Properties::iter (Encoded), response_topic, correlation_data, Property::deserialize, MqttDeserializer"
// @harness sym="2 inbound properties (kinds up+rt; rt=ResponseTopic cd=CorrelationData up=ContentType pf=PayloadFormatIndicator si=SubscriptionIdentifier me=MessageExpiryInterval), contents symbolic bytes (lengths 2,1,0 by position), scalar values symbolic" bounds="2 properties, strings <= 2 bytes, kind sequence concrete (one harness per sequence)"
// @harness assumes="topic/user-property strings ASCII (valid UTF-8 by construction); core::str::from_utf8 replaced by utf8_ok (c08_utf8_ref_equiv)"
#[kani::proof]
#[kani::unwind(8)]
#[kani::stub(core::str::from_utf8, crate::verif_common::stub_from_utf8)]
fn c20_lookup_up_rt() {
    lookup_body(2, [2, 0, 0]);
}

// @harness props=C20,C04 tier=quick layer=L1
// @harness funcs="Properties::encoded, Properties::iter (Encoded), response_topic, correlation_data, Property::deserialize, MqttDeserializer"
// @harness sym="2 inbound properties (kinds me+cd; rt=ResponseTopic cd=CorrelationData up=ContentType pf=PayloadFormatIndicator si=SubscriptionIdentifier me=MessageExpiryInterval), contents symbolic bytes (lengths 2,1,0 by position), scalar values symbolic" bounds="2 properties, strings <= 2 bytes, kind sequence concrete (one harness per sequence)"
// @harness assumes="topic/user-property strings ASCII (valid UTF-8 by construction); core::str::from_utf8 replaced by utf8_ok (c08_utf8_ref_equiv)"
#[kani::proof]
#[kani::unwind(8)]
#[kani::stub(core::str::from_utf8, crate::verif_common::stub_from_utf8)]
fn c20_lookup_me_cd() {
    lookup_body(2, [5, 1, 0]);
}

// @harness props=C20,C04 tier=quick layer=L1
// @harness funcs="Properties::encoded, Properties::iter (Encoded), response_topic, correlation_data, Property::deserialize, MqttDeserializer"
// @harness sym="2 inbound properties (kinds pf+up; rt=ResponseTopic cd=CorrelationData up=ContentType pf=PayloadFormatIndicator si=SubscriptionIdentifier me=MessageExpiryInterval), contents symbolic bytes (lengths 2,1,0 by position), scalar values symbolic" bounds="2 properties, strings <= 2 bytes, kind sequence concrete (one harness per sequence)"
// @harness assumes="topic/user-property strings ASCII (valid UTF-8 by construction); core::str::from_utf8 replaced by utf8_ok (c08_utf8_ref_equiv)"
#[kani::proof]
#[kani::unwind(8)]
#[kani::stub(core::str::from_utf8, crate::verif_common::stub_from_utf8)]
fn c20_lookup_pf_up() {
    lookup_body(2, [3, 2, 0]);
}

// @harness props=C20,C04 tier=thorough layer=L1
// @harness funcs="Properties::encoded, Properties::iter (Encoded), response_topic, correlation_data, Property::deserialize, MqttDeserializer"
// @harness sym="3 inbound properties (kinds up+rt+cd), contents symbolic bytes (lengths 2,1,0 by position)" bounds="3 properties, strings <= 2 bytes, kind sequence concrete"
// @harness assumes="topic/user-property strings ASCII; core::str::from_utf8 replaced by utf8_ok (c08_utf8_ref_equiv)"
#[kani::proof]
#[kani::unwind(8)]
#[kani::stub(core::str::from_utf8, crate::verif_common::stub_from_utf8)]
fn c20_lookup_up_rt_cd() {
    lookup_body(3, [2, 0, 1]);
}

// @harness props=C20,C04 tier=thorough layer=L1
// @harness funcs="Properties::encoded, Properties::iter (Encoded), response_topic, correlation_data, Property::deserialize, MqttDeserializer"
// @harness sym="3 inbound properties (kinds rt+cd+rt), contents symbolic bytes (lengths 2,1,0 by position)" bounds="3 properties, strings <= 2 bytes, kind sequence concrete"
// @harness assumes="topic/user-property strings ASCII; core::str::from_utf8 replaced by utf8_ok (c08_utf8_ref_equiv)"
#[kani::proof]
#[kani::unwind(8)]
#[kani::stub(core::str::from_utf8, crate::verif_common::stub_from_utf8)]
fn c20_lookup_rt_cd_rt() {
    lookup_body(3, [0, 1, 0]);
}

// @harness props=C20,C04 tier=thorough layer=L1
// @harness funcs="Properties::encoded, Properties::iter (Encoded), response_topic, correlation_data, Property::deserialize, MqttDeserializer"
// @harness sym="3 inbound properties (kinds cd+cd+rt), contents symbolic bytes (lengths 2,1,0 by position)" bounds="3 properties, strings <= 2 bytes, kind sequence concrete"
// @harness assumes="topic/user-property strings ASCII; core::str::from_utf8 replaced by utf8_ok (c08_utf8_ref_equiv)"
#[kani::proof]
#[kani::unwind(8)]
#[kani::stub(core::str::from_utf8, crate::verif_common::stub_from_utf8)]
fn c20_lookup_cd_cd_rt() {
    lookup_body(3, [1, 1, 0]);
}

// @harness props=C20,C04 tier=thorough layer=L1
// @harness funcs="Properties::encoded, Properties::iter (Encoded), response_topic, correlation_data, Property::deserialize, MqttDeserializer"
// @harness sym="3 inbound properties (kinds me+pf+rt), contents symbolic bytes (lengths 2,1,0 by position)" bounds="3 properties, strings <= 2 bytes, kind sequence concrete"
// @harness assumes="topic/user-property strings ASCII; core::str::from_utf8 replaced by utf8_ok (c08_utf8_ref_equiv)"
#[kani::proof]
#[kani::unwind(8)]
#[kani::stub(core::str::from_utf8, crate::verif_common::stub_from_utf8)]
fn c20_lookup_me_pf_rt() {
    lookup_body(3, [5, 3, 0]);
}

// @harness props=C20,C04 tier=thorough layer=L1
// @harness funcs="Properties::encoded, Properties::iter (Encoded), response_topic, correlation_data, Property::deserialize, MqttDeserializer"
// @harness sym="3 inbound properties (kinds rt+up+cd), contents symbolic bytes (lengths 2,1,0 by position)" bounds="3 properties, strings <= 2 bytes, kind sequence concrete"
// @harness assumes="topic/user-property strings ASCII; core::str::from_utf8 replaced by utf8_ok (c08_utf8_ref_equiv)"
#[kani::proof]
#[kani::unwind(8)]
#[kani::stub(core::str::from_utf8, crate::verif_common::stub_from_utf8)]
fn c20_lookup_rt_up_cd() {
    lookup_body(3, [0, 2, 1]);
}

// @harness props=C04,C08 tier=quick layer=L1
// @harness funcs="Properties::iter (Encoded), Property::deserialize, Varint::deserialize, read_mqtt_u32_varint"
// @harness sym="one inbound SubscriptionIdentifier property, value 1..=0x0FFFFFFF (all four varint lengths)" bounds="1 property, first next() only (a second next() at the symbolic end offset re-enters the 27-way decoder: > 300 s)"
#[kani::proof]
#[kani::unwind(8)]
#[kani::stub(core::str::from_utf8, crate::verif_common::stub_from_utf8)]
fn c04_prop_subscription_identifier() {
    let v: u32 = kani::any();
    kani::assume(v >= 1 && v <= 0x0FFF_FFFF);
    let mut buf = [0u8; 24];
    let n = ref_encode_prop(&Property::SubscriptionIdentifier(v), &mut buf);
    let props = Properties::encoded(&buf[..n]);
    let mut it = props.iter();
    let got = it.next();
    assert!(
        matches!(got, Some(Ok(Property::SubscriptionIdentifier(x))) if x == v),
        "C04/properties: a legal Subscription Identifier sent by the broker is not surfaced with its value"
    );
    kani::cover!(v > 0x1FF_FFFF, "4-byte value above 2^25");
    kani::cover!(v < 0x80);
}

// @harness props=C08,C20,C04 tier=quick layer=L1
// @harness funcs="core::str::from_utf8 (real) vs verif_common::utf8_ok"
// @harness sym="4 bytes, length 0..=4" bounds="all byte strings of length <= 4 (every lead/continuation class and truncation)"
#[kani::proof]
#[kani::unwind(6)]
fn c08_utf8_ref_equiv() {
    let b: [u8; 4] = kani::any();
    let n: usize = kani::any();
    kani::assume(n <= 4);
    let real = core::str::from_utf8(&b[..n]).is_ok();
    assert!(real == vc::utf8_ok(&b[..n]), "stub discharge: utf8_ok agrees with core::str::from_utf8");
    kani::cover!(real && n == 4 && b[0] >= 0xF0);
    kani::cover!(!real);
}
