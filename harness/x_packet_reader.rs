//! Observers of the private PacketReader state for harnesses in other modules (both overlays).
use super::*;

pub(crate) fn read_bytes(r: &PacketReader<'_>) -> usize {
    r.read_bytes
}
pub(crate) fn packet_length(r: &PacketReader<'_>) -> Option<usize> {
    r.packet_length
}
/// Put the reader into an arbitrary (possibly mid-packet) state.
pub(crate) fn havoc(r: &mut PacketReader<'_>) {
    r.read_bytes = kani::any();
    kani::assume(r.read_bytes <= r.buffer.len());
    r.packet_length = if kani::any() { Some(kani::any()) } else { None };
}

// ---------------------------------------------------------------------------------------------
// Stub for `PacketReader::received_packet` used by the handshake harnesses: the decode itself is
// the subject of c08_dec_connack_* (real decoder, symbolic bytes).  With the real decoder inside
// the handshake the lazily decoded (empty) property block re-enters the 27-way property decoder on
// infeasible paths and the harness does not finish (900 s).
// ---------------------------------------------------------------------------------------------
use crate::packets::{ConnAck, Disconnect};
use crate::properties::{Properties, Property};
use crate::reason_codes::ReasonCode;

/// 0 ConnAck, 1 Disconnect, 2 another packet (PingResp), 3 decode error
pub(crate) static mut RP_KIND: u8 = 0;
pub(crate) static mut RP_SP: bool = false;
pub(crate) static mut RP_RC: u8 = 0;
pub(crate) static mut RP_PROPS: [Property<'static>; 2] = [Property::ReceiveMaximum(1), Property::ReceiveMaximum(1)];
pub(crate) static mut RP_NPROPS: usize = 0;
pub(crate) static mut RP_CALLS: u8 = 0;

#[allow(static_mut_refs)]
pub(crate) fn st_received_packet<'a, 'b>(r: &'b mut PacketReader<'a>) -> Result<ReceivedPacket<'b>, Error>
where
    'a: 'a,
{
    unsafe {
        RP_CALLS += 1;
        // like the real one: the packet is consumed
        r.reset();
        match RP_KIND {
            0 => Ok(ReceivedPacket::ConnAck(ConnAck {
                session_present: RP_SP,
                reason_code: ReasonCode::from(RP_RC),
                properties: Properties::from_slice(&RP_PROPS[..RP_NPROPS]),
            })),
            1 => Ok(ReceivedPacket::Disconnect(Disconnect::with_reason(ReasonCode::from(RP_RC)))),
            2 => Ok(ReceivedPacket::PingResp),
            _ => Err(Error::MalformedPacket),
        }
    }
}

/// Stub for `PacketReader::take_packet`: an arbitrary decode outcome (decoding itself: c08_dec_*).
#[allow(static_mut_refs)]
pub(crate) fn st_take_packet<'a, 'b>(r: &'b mut PacketReader<'a>) -> Result<(usize, ReceivedPacket<'b>), Error>
where
    'a: 'a,
{
    unsafe {
        RP_CALLS += 1;
        r.reset();
        match RP_KIND {
            2 => Ok((2, ReceivedPacket::PingResp)),
            _ => Err(if kani::any() { Error::MalformedPacket } else { Error::Deserialization(crate::de::Error::Custom) }),
        }
    }
}

/// Stub for `PacketReader::packet_available` (drive-loop harnesses): number of buffered packets is a
/// ghost counter decremented by the `process_received_packet` stub.
pub(crate) static mut PKT_AVAIL: u8 = 0;
pub(crate) fn st_packet_available<'a>(_r: &PacketReader<'a>) -> bool
where
    'a: 'a,
{
    unsafe { PKT_AVAIL > 0 }
}
