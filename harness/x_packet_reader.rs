//! Observers of the private PacketReader state for harnesses in other modules (both overlays).
use super::*;

pub(crate) fn read_bytes(r: &PacketReader<'_>) -> usize {
    r.read_bytes
}
pub(crate) fn packet_length(r: &PacketReader<'_>) -> Option<usize> {
    r.packet_length
}
/// Put the reader into an arbitrary (possibly mid-packet) state.
pub(crate) fn havoc(r: &mut PacketReader<'_>) {
    r.read_bytes = kani::any();
    kani::assume(r.read_bytes <= r.buffer.len());
    r.packet_length = if kani::any() { Some(kani::any()) } else { None };
}
