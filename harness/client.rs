//! L1 harnesses on mqtt_client/mod.rs: reply helpers of InboundPublish (C20).
use super::*;
use crate::properties::Property;
use crate::ResourceError;

fn inbound<'a>(props: &'a [Property<'a>]) -> InboundPublish<'a> {
    InboundPublish::new("req", b"x", Properties::from_slice(props), Retain::NotRetained, QoS::AtMostOnce)
}

// @harness props=C20 tier=quick layer=L1
// @harness assumes="properties are decoded values (Slice): core::str::from_utf8 is only reachable on paths CBMC cannot prune (niche-encoded PropertiesData) and is replaced by a trivial stub"
// @harness funcs="InboundPublish::reply_owned, response_target, ResponseTarget::to_owned, OwnedResponseTarget::{topic, correlation_data}"
// @harness sym="3 correlation bytes (any), position of the response topic among the properties" bounds="response topic 'ab' (2 bytes), correlation data 3 bytes; owned capacities <2,3> <3,4> (fit), <1,3> (topic too long), <2,2> (correlation too long), <2,0>"
#[kani::proof]
#[kani::unwind(6)]
#[kani::stub(core::str::from_utf8, crate::verif_common::stub_from_utf8_unreached)]
fn c20_reply_owned_capacity() {
    let corr: [u8; 3] = kani::any();
    let props = [Property::UserProperty("k", "v"), Property::ResponseTopic("ab"), Property::CorrelationData(&corr)];
    let msg = inbound(&props);
    match msg.reply_owned::<2, 3>() {
        Ok(Some(t)) => {
            assert!(t.topic() == "ab", "C20: owned response topic differs from the request's");
            assert!(t.correlation_data() == Some(&corr[..]), "C20: owned correlation data differs from the request's");
        }
        _ => assert!(false, "C20: an owned target that fits exactly was refused"),
    }
    assert!(matches!(msg.reply_owned::<3, 4>(), Ok(Some(t)) if t.topic() == "ab" && t.correlation_data() == Some(&corr[..])), "C20: larger capacities keep the exact contents");
    assert!(matches!(msg.reply_owned::<1, 3>(), Err(ResourceError::BufferTooSmall)), "C20: a response topic that does not fit must be an error, never truncated");
    assert!(matches!(msg.reply_owned::<2, 2>(), Err(ResourceError::BufferTooSmall)), "C20: correlation data that does not fit must be an error, never dropped or truncated");
    assert!(matches!(msg.reply_owned::<2, 0>(), Err(ResourceError::BufferTooSmall)), "C20: correlation data that does not fit (capacity 0) must be an error");
}

// @harness props=C20 tier=quick layer=L1
// @harness funcs="InboundPublish::reply, reply_owned (no response topic / no correlation data)"
// @harness sym="correlation bytes" bounds="requests without response topic, and with response topic but without correlation data"
#[kani::proof]
#[kani::unwind(6)]
#[kani::stub(core::str::from_utf8, crate::verif_common::stub_from_utf8_unreached)]
fn c20_reply_absent_parts() {
    let corr: [u8; 2] = kani::any();
    let no_topic = [Property::CorrelationData(&corr), Property::UserProperty("k", "v")];
    let msg = inbound(&no_topic);
    assert!(msg.reply(&b"p"[..]).is_none(), "C20: without a response topic no reply is offered");
    assert!(matches!(msg.reply_owned::<4, 4>(), Ok(None)), "C20: without a response topic no owned target is offered");
    let no_corr = [Property::ResponseTopic("ab")];
    let msg2 = inbound(&no_corr);
    let r = msg2.reply(&b"p"[..]).expect("C20: a response topic yields a reply");
    assert!(r.topic == "ab", "C20: the reply goes to the response topic");
    assert!(r.properties.iter().next().is_none(), "C20: no correlation data is invented");
    assert!(matches!(msg2.reply_owned::<2, 0>(), Ok(Some(t)) if t.topic() == "ab" && t.correlation_data().is_none()), "C20: absent correlation data needs no capacity");
}

// @harness props=C20 tier=quick layer=L1
// @harness funcs="InboundPublish::reply, ResponseTarget::publication, Publication::correlate / properties, Properties::with_correlation / with_properties / iter (WithCorrelation)"
// @harness sym="2 correlation bytes" bounds="request with [ResponseTopic('ab'), CorrelationData(2 bytes)] then a second ResponseTopic; reply with one user property added"
#[kani::proof]
#[kani::unwind(6)]
#[kani::stub(core::str::from_utf8, crate::verif_common::stub_from_utf8_unreached)]
fn c20_reply_addresses_requester() {
    let corr: [u8; 2] = kani::any();
    let props = [Property::ResponseTopic("ab"), Property::CorrelationData(&corr), Property::ResponseTopic("zz")];
    let msg = inbound(&props);
    assert!(msg.response_topic() == Some("ab"), "C20: the first response topic counts");
    assert!(msg.correlation_data() == Some(&corr[..]), "C20: the correlation data of the request");
    let user = [Property::UserProperty("k", "v")];
    let r = msg.reply(&b"p"[..]).expect("reply offered").properties(&user).qos(QoS::AtLeastOnce);
    assert!(r.topic == "ab", "C20: the reply is addressed to exactly the response topic");
    let mut it = r.properties.iter();
    assert!(matches!(it.next(), Some(Ok(Property::CorrelationData(d))) if d.len() == 2 && d[0] == corr[0] && d[1] == corr[1]), "C20: the reply carries exactly the request's correlation data, also after user properties are added");
    assert!(matches!(it.next(), Some(Ok(Property::UserProperty("k", "v")))), "C20: user properties follow");
    assert!(it.next().is_none(), "C20: the correlation data appears once");
    assert!(r.properties.size() == 5 + 7, "C09/C20: declared property length counts the correlation data once");
}

fn reply_order_body<'a>(props: &'a [Property<'a>; 3], corr: &[u8; 2]) {
    let msg = inbound(props);
    match msg.reply_owned::<2, 2>() {
        Ok(Some(t)) => {
            assert!(t.topic() == "ab", "C20/order: owned response topic differs from the request's");
            assert!(t.correlation_data() == Some(&corr[..]), "C20/order: owned correlation data depends on the position of the properties");
        }
        _ => assert!(false, "C20/order: an owned target that fits exactly was refused"),
    }
    let r = msg.reply(&b"p"[..]).expect("C20/order: a response topic yields a reply");
    assert!(r.topic == "ab", "C20/order: the reply is addressed to exactly the response topic");
    let mut it = r.properties.iter();
    assert!(matches!(it.next(), Some(Ok(Property::CorrelationData(d))) if d.len() == 2 && d[0] == corr[0] && d[1] == corr[1]), "C20/order: the reply's correlation data depends on the position of the properties");
    assert!(it.next().is_none(), "C20/order: nothing else is attached");
}

macro_rules! order_harness {
    ($name:ident, |$t:ident, $c:ident, $u:ident| $arr:expr) => {
        #[kani::proof]
        #[kani::unwind(6)]
        #[kani::stub(core::str::from_utf8, crate::verif_common::stub_from_utf8_unreached)]
        fn $name() {
            let corr: [u8; 2] = kani::any();
            let ($t, $c, $u) = (Property::ResponseTopic("ab"), Property::CorrelationData(&corr), Property::UserProperty("k", "v"));
            reply_order_body(&$arr, &corr);
        }
    };
}

// @harness props=C20 tier=quick layer=L1 unwind=6
// @harness funcs="InboundPublish::response_target, reply, reply_owned, ResponseTarget::{to_owned, publication}, Properties::iter (Slice, WithCorrelation)"
// @harness sym="2 correlation bytes" bounds="request property block (decoded values) in the order tuc of t=ResponseTopic('ab'), c=CorrelationData(2 bytes), u=UserProperty; the order t,c,u is c20_reply_owned_capacity / c20_reply_addresses_requester"
order_harness!(c20_reply_order_tuc, |t, c, u| [t, u, c]);

// @harness props=C20 tier=quick layer=L1 unwind=6
// @harness funcs="InboundPublish::response_target, reply, reply_owned, ResponseTarget::{to_owned, publication}, Properties::iter (Slice, WithCorrelation)"
// @harness sym="2 correlation bytes" bounds="request property block (decoded values) in the order ctu of t=ResponseTopic('ab'), c=CorrelationData(2 bytes), u=UserProperty; the order t,c,u is c20_reply_owned_capacity / c20_reply_addresses_requester"
order_harness!(c20_reply_order_ctu, |t, c, u| [c, t, u]);

// @harness props=C20 tier=quick layer=L1 unwind=6
// @harness funcs="InboundPublish::response_target, reply, reply_owned, ResponseTarget::{to_owned, publication}, Properties::iter (Slice, WithCorrelation)"
// @harness sym="2 correlation bytes" bounds="request property block (decoded values) in the order cut of t=ResponseTopic('ab'), c=CorrelationData(2 bytes), u=UserProperty; the order t,c,u is c20_reply_owned_capacity / c20_reply_addresses_requester"
order_harness!(c20_reply_order_cut, |t, c, u| [c, u, t]);

// @harness props=C20 tier=quick layer=L1 unwind=6
// @harness funcs="InboundPublish::response_target, reply, reply_owned, ResponseTarget::{to_owned, publication}, Properties::iter (Slice, WithCorrelation)"
// @harness sym="2 correlation bytes" bounds="request property block (decoded values) in the order utc of t=ResponseTopic('ab'), c=CorrelationData(2 bytes), u=UserProperty; the order t,c,u is c20_reply_owned_capacity / c20_reply_addresses_requester"
order_harness!(c20_reply_order_utc, |t, c, u| [u, t, c]);

// @harness props=C20 tier=quick layer=L1 unwind=6
// @harness funcs="InboundPublish::response_target, reply, reply_owned, ResponseTarget::{to_owned, publication}, Properties::iter (Slice, WithCorrelation)"
// @harness sym="2 correlation bytes" bounds="request property block (decoded values) in the order uct of t=ResponseTopic('ab'), c=CorrelationData(2 bytes), u=UserProperty; the order t,c,u is c20_reply_owned_capacity / c20_reply_addresses_requester"
order_harness!(c20_reply_order_uct, |t, c, u| [u, c, t]);

