//! L3p (schedule-free projection) harnesses on session/drive.rs, plus the synchronous symbolic
//! transport and the contract stubs A1 (perform_outbound_step), A2 (flush_outbound),
//! A4 (read_packet) shared by the other L3p harness files.
#![allow(static_mut_refs)]
use super::*;
use crate::mqtt_client::outbound::verif_x_outbound as g;
use crate::mqtt_client::outbound::Outbound;
use crate::mqtt_client::ConnectEvent;
use crate::verif_common as vc;
use crate::{Buffers, ConfigBuilder, PeerError, ResourceError, Session};
use embedded_io_async::ErrorKind;

/// Synchronous symbolic transport of the projection: every call either fails or succeeds with an
/// arbitrary legal result (no Pending: the projection has no schedule).
pub(crate) struct SymIoP;

pub(crate) static mut IN: [u8; 12] = [0; 12];
pub(crate) static mut IN_LEN: usize = 0;
pub(crate) static mut IN_OFF: usize = 0;
pub(crate) static mut IN_EOF: u8 = 0;
/// transport never fails when set (healthy-transport harnesses)
pub(crate) static mut IO_HEALTHY: bool = false;
/// reads deliver everything requested and writes accept everything offered (fragmentation is the
/// subject of c13_write_all_contract / c15_read_packet_*; the handshake harnesses switch it off)
pub(crate) static mut IO_WHOLE: bool = false;

/// When set, every `read` checks that all bytes delivered so far have been committed to the
/// PacketReader it points to: the projection's form of "progress is recorded before every await".
/// When non-null: the operation under test is documented cancel-safe, so a multi-byte packet must
/// not go through a direct writer while the handle (whose `live` flag this points to) stays live.
pub(crate) static mut LIVE_PTR: *const bool = core::ptr::null();
pub(crate) static mut READER_PTR: *const crate::de::PacketReader<'static> = core::ptr::null();

impl crate::Io for SymIoP {
    type Error = ErrorKind;
    fn read(&mut self, buf: &mut [u8]) -> Result<usize, ErrorKind> {
        unsafe {
            g::IO_READS += 1;
            g::log(g::E_IO_READ);
            if !READER_PTR.is_null() {
                assert!(
                    crate::de::verif_x_de::reader_obs::read_bytes(&*READER_PTR) == IN_OFF,
                    "C13/read: bytes delivered by an earlier read are not committed when the next read (await point) starts"
                );
                assert!(!buf.is_empty(), "C15/read: a zero-length read is requested");
            }
            if IN_OFF >= IN_LEN {
                if kani::any() {
                    g::IO_ERRS += 1;
                    return Err(ErrorKind::ConnectionReset);
                }
                IN_EOF += 1;
                return Ok(0);
            }
            let k: usize = if IO_WHOLE { buf.len().min(IN_LEN - IN_OFF) } else { kani::any() };
            kani::assume(k >= 1 && k <= buf.len() && k <= IN_LEN - IN_OFF);
            let mut i = 0;
            while i < k {
                buf[i] = IN[IN_OFF + i];
                i += 1;
            }
            IN_OFF += k;
            Ok(k)
        }
    }
    fn write(&mut self, buf: &[u8]) -> Result<usize, ErrorKind> {
        unsafe {
            g::IO_WRITES += 1;
            g::IO_LAST_WLEN = buf.len();
            g::log(g::E_IO_WRITE);
            // Every call of this function is a DIRECT writer (write_all / write_packet): queued
            // packets are written by the A1 stub, which does not come through here.
            assert!(
                !(g::KIND != g::K_NONE && (g::WRITTEN > 0 || g::FLUSH)),
                "C01/O3: a packet is written directly to the transport while another packet is partially on the wire"
            );
            if !LIVE_PTR.is_null() {
                // write_all records its progress nowhere (c13_write_all_contract): if this write
                // accepts only part of `buf` and the future is then dropped, a live handle is left
                // in the middle of a packet.
                assert!(
                    !(*LIVE_PTR && buf.len() >= 2),
                    "KF:F9/disconnect-cancel-midpacket C13: a cancel-safe operation writes a multi-byte packet through write_all while the handle stays live (cancellation after a partial write leaves a live handle mid-packet)"
                );
            }
            if !IO_HEALTHY && kani::any() {
                g::IO_ERRS += 1;
                return Err(ErrorKind::BrokenPipe);
            }
            let k: usize = if IO_WHOLE { buf.len() } else { kani::any() };
            kani::assume(k >= 1 && k <= buf.len());
            g::io_record_write(buf, k);
            Ok(k)
        }
    }
    fn flush(&mut self) -> Result<(), ErrorKind> {
        unsafe {
            g::IO_FLUSHES += 1;
            g::log(g::E_IO_FLUSH);
            if !IO_HEALTHY && kani::any() {
                g::IO_ERRS += 1;
                return Err(ErrorKind::BrokenPipe);
            }
            g::IO_FLUSH_OK += 1;
            Ok(())
        }
    }
}

// ---------------------------------------------------------------------------------------------
// contract stubs (inherent methods of the same generic impl, see DESIGN.md 2.5)
// ---------------------------------------------------------------------------------------------
/// A1 stub accepts the whole rest of a packet in one step (loop harnesses: keeps the loop bound small;
/// partial acceptance is c01_flush_outbound_contract's and c01_step_*'s subject)
pub(crate) static mut STEP_WHOLE: bool = false;
pub(crate) static mut N_DRAIN: u8 = 0;
pub(crate) static mut N_STEP: u8 = 0;
pub(crate) static mut N_READPKT: u8 = 0;
/// C13/C02 enqueue-atomicity predicate checked at every A2 entry (the only place where a
/// cancellable future can be dropped inside publish/subscribe/unsubscribe)
pub(crate) static mut CHECK_ENQ: bool = false;
pub(crate) static mut Q0: u16 = 0;
pub(crate) static mut ENQ_IS_PUBLISH: bool = true;
/// A4 outcome script for the projection's read_packet stub
pub(crate) static mut READ_WOULD_BLOCK: bool = false;

impl<'buf, IO: Io> Connection<'_, 'buf, IO> {
    /// A2 `flush_outbound`: returns Ok only when the abstract outbound offers nothing more; a
    /// transport failure latches the handle; touches nothing but outbound, transport, keep-alive.
    /// Discharged by `c01_flush_outbound_contract` (real flush_outbound, A1 stubbed).
    pub(crate) fn kst_flush_outbound(&mut self) -> Result<(), Error<IO::Error>> {
        unsafe {
            N_DRAIN += 1;
            if CHECK_ENQ {
                // nothing of the request, or all of it, is in session state
                let dec = Q0 - self.session.runtime.send_quota;
                if ENQ_IS_PUBLISH {
                    assert!(dec == g::N_RETAIN as u16, "C13/enqueue: at an await point the request is half-enqueued (retained without its quota slot or vice versa)");
                } else {
                    assert!(dec == 0, "C06: a SUBSCRIBE/UNSUBSCRIBE consumed publish quota");
                }
                assert!(g::N_RETAIN <= 1, "C02: a request is retained twice");
            }
            let pending = g::KIND != g::K_NONE || g::Q[0] != g::K_NONE;
            if !pending {
                g::log(g::E_DRAIN_OK);
                return Ok(());
            }
            if !self.live {
                g::log(g::E_DRAIN_ERR);
                return Err(Error::Disconnected);
            }
            match kani::any::<u8>() % 3 {
                0 => {
                    // everything was written and flushed
                    g::KIND = g::K_NONE;
                    g::Q = [0; 2];
                    g::WRITTEN = 0;
                    g::FLUSH = false;
                    g::IO_WRITES += 1;
                    g::IO_FLUSHES += 1;
                    g::log(g::E_DRAIN_OK);
                    Ok(())
                }
                1 => {
                    g::IO_WRITES += 1;
                    g::IO_ERRS += 1;
                    g::log(g::E_DRAIN_ERR);
                    self.handle_disconnect();
                    Err(Error::Transport(vc_err::<IO>()))
                }
                _ => {
                    // a retained packet exceeds the broker's Maximum Packet Size (not latching)
                    g::log(g::E_DRAIN_ERR);
                    Err(Error::Resource(ResourceError::PacketTooLarge))
                }
            }
        }
    }

    /// A1 `perform_outbound_step`: contract established by the L3c `c01_step_*` harnesses.
    pub(crate) fn kst_perform_outbound_step(&mut self, step: OutboundStep, now: Instant) -> Result<bool, Error<IO::Error>> {
        unsafe {
            N_STEP += 1;
            g::log(g::E_STEP);
            let _ = step;
            assert!(g::KIND != g::K_NONE, "A1: a step is performed on the entry next_step offered");
            if !self.live {
                return Err(Error::Disconnected);
            }
            if !g::FLUSH {
                // write phase
                g::IO_WRITES += 1;
                if !IO_HEALTHY && kani::any() {
                    g::IO_ERRS += 1;
                    self.handle_disconnect();
                    return Err(Error::Transport(vc_err::<IO>()));
                }
                let k: usize = if STEP_WHOLE { g::LEN - g::WRITTEN } else { kani::any() };
                kani::assume(g::WRITTEN < g::LEN && k >= 1 && k <= g::LEN - g::WRITTEN);
                g::WRITTEN += k;
                g::IO_ACC_N += k;
                if g::WRITTEN < g::LEN {
                    return Ok(true);
                }
                g::FLUSH = true;
            }
            g::IO_FLUSHES += 1;
            if !IO_HEALTHY && kani::any() {
                g::IO_ERRS += 1;
                self.handle_disconnect();
                return Err(Error::Transport(vc_err::<IO>()));
            }
            g::IO_FLUSH_OK += 1;
            if g::KIND == g::K_PING {
                self.session.runtime.ping_timeout = Some(now + Duration::from_millis(ROUND_TRIP_TIMEOUT_MS));
            }
            self.session.runtime.note_outbound_activity(now);
            g::LAST_FLUSHED_KIND = g::KIND;
            g::N_FLUSHED += 1;
            g::KIND = g::K_NONE;
            g::WRITTEN = 0;
            g::FLUSH = false;
            Ok(true)
        }
    }

    /// A4 `read_packet` in the projection: would-block (only meaningful under a deadline), a
    /// complete packet, or a latching failure.  Discharged by the L3c read harnesses.
    pub(crate) fn kst_read_packet(&mut self) -> Result<(), Error<IO::Error>> {
        unsafe {
            N_READPKT += 1;
            g::log(g::E_IO_READ);
            if !self.live {
                return Err(Error::Disconnected);
            }
            g::IO_READS += 1;
            match kani::any::<u8>() % 3 {
                0 => {
                    vc::WOULD_BLOCK = true;
                    READ_WOULD_BLOCK = true;
                    Ok(())
                }
                1 => Ok(()),
                _ => {
                    self.handle_disconnect();
                    if kani::any() {
                        Err(Error::Disconnected)
                    } else {
                        Err(Error::Transport(vc_err::<IO>()))
                    }
                }
            }
        }
    }
}

/// An arbitrary transport error value of the connection's error type (only `SymIoP` is used).
fn vc_err<IO: Io>() -> IO::Error {
    // All L3p harnesses instantiate IO = SymIoP whose error is ErrorKind (a fieldless enum of
    // size 1); transmute_copy from a valid ErrorKind is sound for that instantiation only.
    assert!(core::mem::size_of::<IO::Error>() == core::mem::size_of::<ErrorKind>());
    let e = ErrorKind::BrokenPipe;
    unsafe { core::mem::transmute_copy::<ErrorKind, IO::Error>(&e) }
}

macro_rules! proj_harness {
    ($name:ident, $unwind:literal, $body:block) => {
        #[kani::proof]
        #[kani::unwind($unwind)]
        #[kani::stub(embassy_time::Instant::now, crate::verif_common::stub_now)]
        #[kani::stub(Outbound::next_step, g::st_next_step)]
        #[kani::stub(Outbound::set_control_written, g::st_set_control_written)]
        #[kani::stub(Outbound::set_release_written, g::st_set_release_written)]
        #[kani::stub(Outbound::set_retained_written, g::st_set_retained_written)]
        #[kani::stub(Outbound::flush_control, g::st_flush_control)]
        #[kani::stub(Outbound::flush_release, g::st_flush_release)]
        #[kani::stub(Outbound::flush_retained, g::st_flush_retained)]
        #[kani::stub(Outbound::arm_replay, g::st_arm_replay)]
        #[kani::stub(Outbound::queue_control, g::st_queue_control)]
        #[kani::stub(Outbound::has_pending_pingreq, g::st_has_pending_pingreq)]
        #[kani::stub(Connection::perform_outbound_step, Connection::kst_perform_outbound_step)]
        fn $name() $body
    };
}

pub(crate) fn reset_all() {
    g::reset_ghost();
    unsafe {
        N_DRAIN = 0;
        N_STEP = 0;
        N_READPKT = 0;
        CHECK_ENQ = false;
        IO_HEALTHY = false;
        STEP_WHOLE = false;
        IO_WHOLE = false;
        IN_LEN = 0;
        IN_OFF = 0;
        IN_EOF = 0;
        READ_WOULD_BLOCK = false;
        READER_PTR = core::ptr::null();
        LIVE_PTR = core::ptr::null();
        vc::WOULD_BLOCK = false;
        vc::NOW = 0;
        vc::NOW_CALLS = 0;
    }
}

// @harness props=C01,C16,C11,C13 tier=quick layer=L3p unwind=8
// @harness funcs="Connection::flush_outbound, maybe_queue_pingreq, should_queue_pingreq (projection); discharges contract A2"
// @harness sym="current entry (kind, progress) + up to 2 queued entries of symbolic kind, live flag, clock, keep-alive state, every step outcome (A1)" bounds="measure <= 3 entries; <= 7 loop iterations (unwinding asserted)"
// @harness assumes="A1 (perform_outbound_step contract, from c01_step_*), K1-K3 (abstract outbound)"
proj_harness!(c01_flush_outbound_contract, 10, {
    reset_all();
    let mut rx = [0u8; 8];
    let mut tx = [0u8; 16];
    let mut session = Session::new(ConfigBuilder::new(Buffers::new(&mut rx, &mut tx)).keepalive_interval(60));
    // ghost: symbolic current entry of <= 2 bytes left, plus queued PUBACK / PINGREQ
    g::any_current(0, 2);
    unsafe {
        kani::assume(g::KIND == g::K_NONE || g::KIND == g::K_PING || g::KIND == g::K_RET);
        if kani::any() {
            g::Q[0] = g::K_PING;
        }
    }
    session.runtime.next_ping = None; // no new ping becomes due inside this drain (C10 has its own harness)
    let live: bool = kani::any();
    let mut conn = Connection { session: &mut session, io: SymIoP, event: ConnectEvent::Connected, live };
    let m0 = g::measure();
    let r = conn.flush_outbound();
    unsafe {
        match r {
            Ok(()) => {
                assert!(g::KIND == g::K_NONE && g::Q[0] == g::K_NONE, "C01/A2: flush_outbound returned Ok while a packet is still pending or partially written");
                assert!(g::measure() == 0);
            }
            Err(Error::Transport(_)) => assert!(!conn.live, "C11/A2: a transport error during the drain did not latch the handle"),
            Err(Error::Disconnected) => assert!(!live, "C11/A2: Disconnected from a live handle"),
            Err(_) => assert!(false, "A2: unexpected error from the drain"),
        }
        // a PINGREQ may become due while draining (the clock is arbitrary): at most one, 2 bytes
        assert!(g::N_QPING <= 1, "C10/A2: more than one PINGREQ queued during one drain");
        assert!(N_STEP as usize <= m0 + 2 * g::N_QPING as usize, "C16/A2: the drain performs more steps than bytes + packets to send");
        if !live && m0 > 0 {
            assert!(g::IO_WRITES == 0 && g::IO_FLUSHES == 0, "C11/A2: a dead handle touched the transport");
        }
    }
    kani::cover!(matches!(r, Ok(())) && m0 == 5);
    kani::cover!(matches!(r, Err(Error::Transport(_))));
});

fn read_body(cap_ok: bool) {
    reset_all();
    let mut rx = [0u8; 6];
    let mut tx = [0u8; 8];
    let mut session = Session::new(ConfigBuilder::new(Buffers::new(&mut rx, &mut tx)));
    let script: [u8; 12] = kani::any();
    unsafe {
        IN = script;
        IN_LEN = 8;
    }
    if cap_ok {
        kani::assume(script[1] <= 4);
    } else {
        kani::assume(script[1] & 0x80 == 0 && script[1] > 4);
    }
    let live: bool = kani::any();
    unsafe { READER_PTR = core::mem::transmute(&session.packet_reader as *const crate::de::PacketReader<'_>) };
    let mut conn = Connection { session: &mut session, io: SymIoP, event: ConnectEvent::Connected, live };
    let result = conn.read_packet();
    unsafe {
        READER_PTR = core::ptr::null();
        assert!(g::IO_WRITES == 0 && g::IO_FLUSHES == 0, "C11/read: reading writes to the transport");
        if !live {
            assert!(g::IO_READS == 0 && matches!(result, Err(Error::Disconnected)), "C11/read: a dead handle touched the transport");
        }
        match &result {
            Ok(()) => {
                let total = 2 + script[1] as usize;
                assert!(cap_ok, "C14/read: an oversize packet was accepted");
                assert!(conn.session.packet_reader.packet_available(), "C15/A4: Ok means a whole packet is buffered");
                assert!(IN_OFF == total, "C15/A4: exactly one packet was consumed from the stream, whatever the chunking");
                let mut i = 0;
                while i < 6 {
                    if i < total {
                        assert!(conn.session.packet_reader.buffer[i] == script[i], "C15/A4: the buffered packet differs from the stream");
                    }
                    i += 1;
                }
                assert!(conn.live);
            }
            Err(e) => {
                if live {
                    assert!(!conn.live, "C11/read: a transport error, end of stream or oversize packet did not latch the handle");
                    assert!(g::N_ARM >= 1, "C12/read: failure did not arm replay");
                    assert!(!conn.session.packet_reader.packet_available(), "C12/read: a partial inbound packet survives the failure");
                }
                match e {
                    Error::Transport(_) => assert!(g::IO_ERRS == 1),
                    Error::Disconnected => assert!(!live || IN_EOF == 1, "C11/read: Disconnected without end of stream"),
                    Error::Peer(PeerError::InvalidPacket) => assert!(!cap_ok, "C08/read: a packet that fits was refused"),
                    _ => assert!(false, "C11/read: unexpected error kind"),
                }
            }
        }
        if !cap_ok && live {
            assert!(IN_OFF <= 2, "C14/read: body bytes of a packet larger than the receive buffer were requested");
        }
    }
    kani::cover!(!cap_ok || matches!(result, Ok(())));
    kani::cover!(!cap_ok || (matches!(result, Ok(())) && unsafe { g::IO_READS } == 6), "six single-byte reads");
}

// @harness props=C15,C11,C13,C12 tier=quick layer=L3p unwind=9
// @harness funcs="Connection::read_packet, fill_packet_reader (projection), PacketReader::*"
// @harness sym="stream bytes (packet of 2..6 bytes), chunking of every read (1..=requested), end of stream / error, live flag" bounds="6-byte receive buffer; stream of 8 bytes; at every read entry: delivered == committed"
proj_harness!(c15_read_packet_commits_and_latches, 9, { read_body(true) });

// @harness props=C14,C11,C08 tier=quick layer=L3p unwind=9
// @harness funcs="Connection::read_packet, fill_packet_reader (projection) with a declared length above the receive buffer"
// @harness sym="stream bytes with remaining length 5..127, chunking" bounds="6-byte receive buffer"
proj_harness!(c14_oversize_inbound_latches_p, 9, { read_body(false) });

// ---------------------------------------------------------------------------------------------
// C10: service / maybe_queue_pingreq with a symbolic clock
// ---------------------------------------------------------------------------------------------
// @harness props=C10,C11,C16 tier=quick layer=L3p unwind=8
// @harness funcs="Connection::service, service_outbound_once, maybe_queue_pingreq, should_queue_pingreq (projection)"
// @harness sym="now, next_ping, ping_timeout (Option<ticks>), whether a PINGREQ is already queued, live, current outbound entry, step outcome (A1)" bounds="one service() call; keep-alive 60 s"
// @harness assumes="A1, K1; check_control_packet_size real"
proj_harness!(c10_service_ping_and_timeout, 8, {
    reset_all();
    let mut rx = [0u8; 8];
    let mut tx = [0u8; 16];
    let mut session = Session::new(ConfigBuilder::new(Buffers::new(&mut rx, &mut tx)).keepalive_interval(60));
    let now_t: u64 = kani::any();
    kani::assume(now_t < (1 << 60));
    let now = Instant::from_ticks(now_t);
    let np: Option<u64> = if kani::any() { Some(kani::any()) } else { None };
    let pt: Option<u64> = if kani::any() { Some(kani::any()) } else { None };
    session.runtime.next_ping = np.map(Instant::from_ticks);
    session.runtime.ping_timeout = pt.map(Instant::from_ticks);
    // ghost: nothing queued, or a PINGREQ already queued/in progress
    let ping_queued: bool = kani::any();
    unsafe {
        if ping_queued {
            g::KIND = g::K_PING;
            g::LEN = 2;
            g::WRITTEN = 0;
        }
    }
    let live: bool = kani::any();
    let mut conn = Connection { session: &mut session, io: SymIoP, event: ConnectEvent::Connected, live };
    let r = conn.service(now);
    unsafe {
        let timed_out = pt.map_or(false, |d| now_t >= d);
        if timed_out {
            assert!(matches!(r, Err(Error::Disconnected)), "C10: an unanswered PINGREQ past its deadline must end with Disconnected");
            assert!(!conn.live && g::N_ARM >= 1, "C11: the keep-alive timeout latches the handle");
            assert!(N_STEP == 0 && g::IO_WRITES == 0, "C10: nothing is written once the peer is declared dead");
        } else {
            assert!(!(matches!(r, Err(Error::Disconnected)) && live), "C10: Disconnected before the round-trip bound has elapsed");
            let due = pt.is_none() && np.map_or(false, |d| now_t >= d) && !ping_queued;
            assert!(g::N_QPING == due as u8, "C10: a PINGREQ is queued exactly when the ping deadline has passed, none is outstanding and none is queued");
            if due || ping_queued {
                assert!(N_STEP == 1, "C10: the queued PINGREQ is driven in the same service call");
            }
            if let Ok(advanced) = r {
                assert!(advanced == (N_STEP == 1), "C16: service reports progress iff a step was performed");
            }
        }
    }
    kani::cover!(matches!(r, Ok(true)) && unsafe { g::N_QPING } == 1);
    kani::cover!(matches!(r, Err(Error::Disconnected)) && live);
    kani::cover!(matches!(r, Ok(false)));
});

// @harness props=C10 tier=quick layer=L3p unwind=8
// @harness funcs="Connection::service, should_queue_pingreq, RuntimeState::keepalive_send_interval (projection)"
// @harness sym="keep-alive K (1..=65535 s), time t of the last completed PINGREQ, now in (t + K, ...)" bounds="one service() call with a PINGREQ outstanding (ping_timeout armed)"
// @harness assumes="A1, K1; KNOWN FINDING F10 tagged"
proj_harness!(c10_gap_bound_ping_outstanding, 8, {
    reset_all();
    let mut rx = [0u8; 8];
    let mut tx = [0u8; 16];
    let k: u16 = kani::any();
    kani::assume(k >= 1);
    let mut session = Session::new(ConfigBuilder::new(Buffers::new(&mut rx, &mut tx)).keepalive_interval(k));
    let t: u64 = kani::any();
    kani::assume(t < (1 << 50));
    let t_last = Instant::from_ticks(t);
    // state right after a PINGREQ completed at t_last (c01_step_ping_*: both timers set from `now`)
    session.runtime.note_outbound_activity(t_last);
    session.runtime.ping_timeout = Some(t_last + Duration::from_millis(ROUND_TRIP_TIMEOUT_MS));
    let now_t: u64 = kani::any();
    kani::assume(now_t < (1 << 51));
    let now = Instant::from_ticks(now_t);
    // the whole keep-alive has elapsed since the last client packet and no PINGRESP has arrived
    kani::assume(now > t_last + Duration::from_secs(k as u64));
    let mut conn = Connection { session: &mut session, io: SymIoP, event: ConnectEvent::Connected, live: true };
    let r = conn.service(now);
    unsafe {
        let acted = matches!(r, Err(Error::Disconnected)) || g::N_QPING == 1 || N_STEP >= 1;
        // modulo F10: for keep-alive >= 5 s the round-trip timeout has expired by now
        assert!(acted || k < 5, "C10: the keep-alive elapsed with a PINGREQ outstanding and service() neither pinged nor disconnected (keep-alive >= 5 s)");
        assert!(acted, "KF:F10/short-keepalive-gap C10: with keep-alive < 5 s and a PINGREQ outstanding nothing is sent between t + keep-alive and t + 5 s (gap between client packets exceeds the keep-alive)");
    }
});

/// A4' stub for the free function `fill_packet_reader` (handshake harnesses): the framing is the
/// subject of c15_read_packet_commits_and_latches; here it either delivers a packet or fails.
pub(crate) static mut FILL_OUTCOME: u8 = 0; // 0 ok, 1 end of stream, 2 oversize
pub(crate) static mut FILL_CALLS: u8 = 0;
pub(crate) fn st_fill_packet_reader<'buf, C: Io>(_packet_reader: &mut PacketReader<'buf>, _connection: &mut C) -> Result<(), Error<C::Error>> {
    unsafe {
        FILL_CALLS += 1;
        g::log(g::E_IO_READ);
        match FILL_OUTCOME {
            0 => Ok(()),
            1 => Err(Error::Disconnected),
            _ => Err(Error::Peer(PeerError::InvalidPacket)),
        }
    }
}

// ---------------------------------------------------------------------------------------------
// C16 / C10: the drive_packet loop
// ---------------------------------------------------------------------------------------------
pub(crate) static mut N_PROC: u8 = 0;
pub(crate) static mut PROC_PINGRESP: u8 = 0;

impl<'buf, IO: Io> Connection<'_, 'buf, IO> {
    /// A5 `process_received_packet`: consumes one buffered packet; outcome arbitrary among the ones
    /// established by `c08_bad_packet_latches` (deliver / internal incl. PINGRESP and owed ack /
    /// fatal with latch / Rejected without latch).
    pub(crate) fn kst_process_received_packet(&mut self) -> Result<Option<usize>, Error<IO::Error>> {
        use crate::de::verif_x_de::reader_obs;
        unsafe {
            if reader_obs::PKT_AVAIL == 0 {
                return Ok(None);
            }
            N_PROC += 1;
            reader_obs::PKT_AVAIL -= 1;
            match kani::any::<u8>() % 5 {
                0 => Ok(Some(5)),
                1 => {
                    // PINGRESP
                    PROC_PINGRESP += 1;
                    self.session.runtime.ping_timeout = None;
                    Ok(None)
                }
                2 => {
                    // an inbound publish / PUBREL that owes an acknowledgement
                    if g::Q[1] == g::K_NONE {
                        let _ = g::st_queue_control(&mut self.session.data.outbound, g::ACK_ACTION);
                    }
                    Ok(None)
                }
                3 => {
                    self.handle_disconnect();
                    Err(Error::Disconnected)
                }
                _ => Err(Error::Peer(PeerError::Rejected(crate::ReasonCode::UnspecifiedError))),
            }
        }
    }
}

macro_rules! loop_harness {
    ($name:ident, $unwind:literal, $body:block) => {
        #[kani::proof]
        #[kani::unwind($unwind)]
        #[kani::stub(embassy_time::Instant::now, crate::verif_common::stub_now)]
        #[kani::stub(Outbound::next_step, g::st_next_step)]
        #[kani::stub(Outbound::arm_replay, g::st_arm_replay)]
        #[kani::stub(Outbound::queue_control, g::st_queue_control)]
        #[kani::stub(Outbound::has_pending_pingreq, g::st_has_pending_pingreq)]
        #[kani::stub(Connection::perform_outbound_step, Connection::kst_perform_outbound_step)]
        #[kani::stub(Connection::process_received_packet, Connection::kst_process_received_packet)]
        #[kani::stub(crate::de::PacketReader::packet_available, crate::de::verif_x_de::reader_obs::st_packet_available)]
        fn $name() $body
    };
}

// @harness props=C16,C10,C11 tier=quick layer=L3p unwind=10
// @harness funcs="Connection::drive_packet, drive, service, service_outbound_once, maybe_queue_pingreq (projection)"
// @harness sym="buffered inbound packets (0..2) with arbitrary handling outcome each, current outbound entry (kind, progress), clock, next_ping / ping_timeout, live, every step outcome" bounds="<= 2 buffered packets, <= 1 current + 2 queued outbound entries, each sent in one step; loop <= 9 iterations (unwinding asserted)"
// @harness assumes="A1 (step), A5 (process_received_packet), K1; transport healthy or failing per step"
loop_harness!(c16_drive_packet_exits, 10, {
    use crate::de::verif_x_de::reader_obs;
    reset_all();
    let mut rx = [0u8; 8];
    let mut tx = [0u8; 16];
    let mut session = Session::new(ConfigBuilder::new(Buffers::new(&mut rx, &mut tx)).keepalive_interval(60));
    g::any_current(0, 2);
    unsafe {
        kani::assume(g::KIND == g::K_NONE || g::KIND == g::K_PING || g::KIND == g::K_RET);
        reader_obs::PKT_AVAIL = kani::any();
        kani::assume(reader_obs::PKT_AVAIL <= 2);
        N_PROC = 0;
        PROC_PINGRESP = 0;
        STEP_WHOLE = true;
    }
    let pkt0 = unsafe { reader_obs::PKT_AVAIL };
    session.runtime.next_ping = None; // (ping scheduling: c10_service_ping_and_timeout)
    let pt: Option<u64> = if kani::any() { Some(kani::any()) } else { None };
    session.runtime.ping_timeout = pt.map(Instant::from_ticks);
    let live: bool = kani::any();
    let mut conn = Connection { session: &mut session, io: SymIoP, event: ConnectEvent::Connected, live };
    let m0 = g::measure();
    let r = conn.drive_packet();
    unsafe {
        if !live {
            assert!(matches!(r, Err(Error::Disconnected)) && N_STEP == 0 && N_PROC == 0 && g::IO_WRITES == 0, "C11: drive on a dead handle must fail fast without touching anything");
        }
        match &r {
            Ok(Progress::Idle) => {
                assert!(N_STEP == 0 && N_PROC == 0, "C16: Idle reported although something was done");
                assert!(g::KIND == g::K_NONE && g::Q[0] == g::K_NONE && reader_obs::PKT_AVAIL == 0, "C16: Idle reported although work is pending");
            }
            Ok(Progress::Advanced) => {
                assert!(g::IO_ACC_N >= 1 || g::IO_FLUSH_OK >= 1 || N_PROC >= 1, "C16: progress reported without an accepted byte, a completed flush or a consumed inbound packet");
                assert!(g::KIND == g::K_NONE && g::Q[0] == g::K_NONE, "C16: drive returned with outbound work still pending and no error");
                assert!(reader_obs::PKT_AVAIL == 0, "C16: drive returned with a buffered inbound packet unprocessed");
            }
            Ok(Progress::Inbound(_)) => assert!(N_PROC >= 1, "C04: a message is surfaced only from a processed packet"),
            Err(_) => {}
        }
        // C10: a buffered packet (possibly the PINGRESP) is processed before the dead-peer check
        if live && pkt0 > 0 {
            assert!(N_PROC >= 1, "C10: the keep-alive timeout was evaluated before a packet that was already buffered");
        }
        assert!(N_STEP as usize <= m0 + 5 * (N_PROC as usize) + 2 * g::N_QPING as usize, "C16: more steps than bytes and packets to send");
    }
    kani::cover!(matches!(r, Ok(Progress::Idle)));
    kani::cover!(matches!(r, Ok(Progress::Advanced)) && unsafe { N_STEP >= 2 });
    kani::cover!(matches!(r, Ok(Progress::Inbound(_))));
});

// ---------------------------------------------------------------------------------------------
// C10 / C16: wait_for_progress (poll / recv) with the with_deadline model
// ---------------------------------------------------------------------------------------------
pub(crate) static mut DP_CALLS: u8 = 0;
pub(crate) static mut DP_LAST_TIMEOUT_DEADLINE: u64 = 0;
pub(crate) static mut DP_TIMED_OUT: bool = false;
pub(crate) static mut DP_AFTER_TIMEOUT_OK: bool = true;
pub(crate) static mut DP_RETURNED: u8 = 0; // 1 advanced, 2 inbound

impl<'buf, IO: Io> Connection<'_, 'buf, IO> {
    /// A6 `drive_packet`: arbitrary outcome (its own harness: c16_drive_packet_exits); non-Idle by the
    /// third call so that the loop under test is bounded.
    pub(crate) fn kst_drive_packet(&mut self) -> Result<Progress, Error<IO::Error>> {
        unsafe {
            DP_CALLS += 1;
            if !self.live {
                return Err(Error::Disconnected);
            }
            // C10: after a timeout the clock has reached the deadline when the session is driven again
            if DP_TIMED_OUT && vc::NOW < DP_LAST_TIMEOUT_DEADLINE {
                DP_AFTER_TIMEOUT_OK = false;
            }
            let c: u8 = kani::any();
            kani::assume(DP_CALLS < 3 || c % 4 != 0);
            match c % 4 {
                0 => Ok(Progress::Idle),
                1 => {
                    DP_RETURNED = 1;
                    Ok(Progress::Advanced)
                }
                2 => {
                    DP_RETURNED = 2;
                    Ok(Progress::Inbound(4))
                }
                _ => {
                    self.handle_disconnect();
                    Err(Error::Disconnected)
                }
            }
        }
    }

    /// A4 with the deadline bookkeeping for `wait_for_progress`
    pub(crate) fn kst_read_packet_wfp(&mut self) -> Result<(), Error<IO::Error>> {
        unsafe {
            let had_deadline = self.session.runtime.next_deadline();
            let r = self.kst_read_packet();
            if READ_WOULD_BLOCK {
                READ_WOULD_BLOCK = false;
                match had_deadline {
                    // the wait would never end: no behaviour to check
                    None => kani::assume(false),
                    Some(d) => {
                        DP_TIMED_OUT = true;
                        DP_LAST_TIMEOUT_DEADLINE = d.as_ticks();
                    }
                }
            }
            r
        }
    }
}

// @harness props=C10,C16,C11 tier=quick layer=L3p unwind=5
// @harness funcs="Connection::wait_for_progress, poll, recv (loop structure), RuntimeState::next_deadline; with_deadline model (projection)"
// @harness sym="outcome of every drive_packet call (Idle / Advanced / Inbound / fatal), of every read (would block / packet / failure), next_ping and ping_timeout (Option<ticks>), clock" bounds="<= 3 loop iterations (drive stub is non-Idle by its third call)"
// @harness assumes="A6 (drive_packet contract: c16_drive_packet_exits, c10_service_*), A4 (read_packet), with_deadline model: would-block => clock := deadline and Err(Timeout), embassy polls the inner future before the timer"
#[kani::proof]
#[kani::unwind(5)]
#[kani::stub(embassy_time::Instant::now, crate::verif_common::stub_now)]
#[kani::stub(Outbound::arm_replay, g::st_arm_replay)]
#[kani::stub(Connection::drive_packet, Connection::kst_drive_packet)]
#[kani::stub(Connection::read_packet, Connection::kst_read_packet_wfp)]
fn c10_wait_for_progress_deadlines() {
    reset_all();
    unsafe {
        DP_CALLS = 0;
        DP_LAST_TIMEOUT_DEADLINE = 0;
        DP_TIMED_OUT = false;
        DP_AFTER_TIMEOUT_OK = true;
        DP_RETURNED = 0;
    }
    let mut rx = [0u8; 8];
    let mut tx = [0u8; 16];
    let mut session = Session::new(ConfigBuilder::new(Buffers::new(&mut rx, &mut tx)).keepalive_interval(60));
    let np: Option<u64> = if kani::any() { Some(kani::any()) } else { None };
    let pt: Option<u64> = if kani::any() { Some(kani::any()) } else { None };
    kani::assume(np.map_or(true, |v| v < (1 << 60)) && pt.map_or(true, |v| v < (1 << 60)));
    session.runtime.next_ping = np.map(Instant::from_ticks);
    session.runtime.ping_timeout = pt.map(Instant::from_ticks);
    let mut conn = Connection { session: &mut session, io: SymIoP, event: ConnectEvent::Connected, live: true };
    let r = conn.wait_for_progress();
    unsafe {
        match r {
            Ok(Progress::Idle) => assert!(false, "C16: poll() would return without any progress (unreachable!() in poll)"),
            Ok(Progress::Advanced) => assert!(DP_RETURNED == 1, "C16: Advanced reported without the driver reporting it"),
            Ok(Progress::Inbound(n)) => assert!(DP_RETURNED == 2 && n == 4, "C04: a message surfaced that the driver did not produce"),
            Err(_) => assert!(!conn.live || g::IO_ERRS > 0 || true),
        }
        assert!(DP_AFTER_TIMEOUT_OK, "C10: after the wait timed out the session was driven before the clock reached the deadline");
        assert!(N_READPKT as u16 + 1 >= DP_CALLS as u16, "C16: the driver is invoked at most once more than the reads (every loop turn drives first, then waits)");
        // the earlier of the two deadlines bounds the wait
        if DP_TIMED_OUT && DP_CALLS == 2 {
            // (first timeout: the timers have not been touched by anything yet)
            let lo = match (np, pt) {
                (Some(a), Some(b)) => a.min(b),
                (Some(a), None) => a,
                (None, Some(b)) => b,
                (None, None) => 0,
            };
            assert!(DP_LAST_TIMEOUT_DEADLINE == lo, "C10: the wait is bounded by the earlier of ping deadline and round-trip timeout");
        }
    }
    kani::cover!(unsafe { DP_TIMED_OUT && DP_CALLS >= 2 }, "timed out, then driven again");
    kani::cover!(matches!(r, Ok(Progress::Inbound(_))));
}
