//! Re-exports the PacketReader observers out of the private `de::packet_reader` module.
pub(crate) use super::packet_reader::verif_x_packet_reader as reader_obs;
