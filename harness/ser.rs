//! L1 harnesses on ser/mod.rs: leaf lemmas of the encoder (C09, C01): property encoding vs. the
//! reference encoding and `size()`, fixed-header back-fill arithmetic, too-small buffers.
use super::*;
use crate::properties::{Properties, Property};
use crate::verif_common::{any_bin3, any_str3, prop_of_kind, ref_encode_prop, N_PROP_KINDS};
use crate::wire::{BinaryData, MessageType, Utf8String};
use serde::Serialize;

// @harness props=C09,C01 tier=quick layer=L1
// @harness funcs="Serialize for Property, Property::size, Varint::serialize, Utf8String/BinaryData::serialize, MqttSerializer::push/push_bytes"
// @harness sym="property kind (27), scalar value (all), string/binary length 0..3" bounds="one property; strings <= 3 bytes"
#[kani::proof]
#[kani::unwind(13)]
fn c09_property_encoding_matches_reference() {
    let kind: u8 = kani::any();
    kani::assume(kind < N_PROP_KINDS);
    let p = prop_of_kind(kind, any_str3(), any_str3(), any_bin3());
    if let Property::SubscriptionIdentifier(v) = p {
        kani::assume(v <= 0x0FFF_FFFF);
    }
    let mut buf = [0u8; 32];
    let mut ser = MqttSerializer::new(&mut buf);
    let r = p.serialize(&mut ser);
    assert!(r.is_ok(), "C09: every property with in-range value is encodable");
    let n = ser.index - MAX_FIXED_HEADER_SIZE;
    let mut want = [0u8; 24];
    let wn = ref_encode_prop(&p, &mut want);
    assert!(n == wn, "C09: encoded property length equals the reference encoding");
    assert!(p.size() == wn, "C09: Property::size() equals the number of bytes emitted (property-length prefix is exact)");
    let mut i = 0;
    while i < 11 {
        if i < wn {
            assert!(ser.buf[MAX_FIXED_HEADER_SIZE + i] == want[i], "C09: property bytes equal the reference encoding (identifier, value, big-endian, length-prefixed strings)");
        }
        i += 1;
    }
    kani::cover!(wn == 11, "user property with two 3-byte strings");
    kani::cover!(matches!(p, Property::SubscriptionIdentifier(v) if v > 0x1F_FFFF));
}

// @harness props=C09,C01 tier=quick layer=L1
// @harness funcs="Serialize for Properties (Slice, WithCorrelation), Properties::size"
// @harness sym="values of 2 properties, correlation bytes" bounds="[MessageExpiryInterval(v), UserProperty(2,1 bytes)] with and without correlation data of 2 bytes"
#[kani::proof]
#[kani::unwind(10)]
fn c09_property_block_length_prefix() {
    // the WithCorrelation variant exhausts memory here (CBMC cannot fold the niche-encoded
    // discriminant of PropertiesData and serialises a garbage `correlation` 27 ways); it is covered by
    // the thorough harness c09_enc_publish_q1_correlation and, for iteration order, by C20's harnesses
    block_prefix_body(false);
}

fn block_prefix_body(with_corr: bool) {
    let v: u32 = kani::any();
    let props = [Property::MessageExpiryInterval(v), Property::UserProperty("ab", "c")];
    let corr: [u8; 2] = kani::any();
    let ps = if with_corr { Properties::from_slice(&props).with_correlation(&corr) } else { Properties::from_slice(&props) };
    let mut buf = [0u8; 40];
    let mut ser = MqttSerializer::new(&mut buf);
    assert!(ps.serialize(&mut ser).is_ok());
    let n = ser.index - MAX_FIXED_HEADER_SIZE;
    let body = 5 + 8 + if with_corr { 5 } else { 0 };
    assert!(ps.size() == body, "C09: Properties::size() counts every property once (correlation data included once)");
    assert!(n == 1 + body && ser.buf[5] as usize == body, "C09: the declared property length equals the bytes that follow");
    if with_corr {
        assert!(ser.buf[6] == 0x09 && ser.buf[7] == 0 && ser.buf[8] == 2 && ser.buf[9] == corr[0] && ser.buf[10] == corr[1], "C20/C09: correlation data is emitted exactly once, first");
        assert!(ser.buf[11] == 0x02, "C09: user-supplied properties follow");
    } else {
        assert!(ser.buf[6] == 0x02 && ser.buf[7] == (v >> 24) as u8 && ser.buf[10] == v as u8);
        assert!(ser.buf[11] == 0x26 && ser.buf[12] == 0 && ser.buf[13] == 2 && ser.buf[14] == b'a' && ser.buf[16] == 0 && ser.buf[17] == 1 && ser.buf[18] == b'c');
    }
}

static mut BIG: [u8; 160] = [0; 160];

// @harness props=C09,C01 tier=quick layer=L1
// @harness funcs="MqttSerializer::finalize, write_mqtt_u32_varint"
// @harness sym="body length 0..=150 (serializer index), flag nibble" bounds="covers the 1/2-byte remaining-length boundary on a real buffer (16 KiB and 2 MiB buffers for the 2/3 and 3/4 boundaries did not finish in 300 s; those boundaries are covered arithmetically by c08_varint_roundtrip, exhaustive over u32)"
#[kani::proof]
#[kani::unwind(6)]
fn c09_finalize_fixed_header() {
    let body: usize = kani::any();
    kani::assume(body <= 150);
    let flags: u8 = kani::any();
    let buf: &'static mut [u8] = unsafe { &mut *core::ptr::addr_of_mut!(BIG) };
    let ser = MqttSerializer { buf, index: MAX_FIXED_HEADER_SIZE + body };
    let (offset, packet) = ser.finalize(MessageType::Publish, flags).unwrap();
    let lb = if body < 128 { 1 } else { 2 };
    assert!(offset == MAX_FIXED_HEADER_SIZE - lb - 1, "C09: the fixed header is right-aligned in front of the body");
    assert!(packet.len() == 1 + lb + body, "C01: total length = 1 + length bytes + remaining length");
    assert!(packet[0] == 0x30 | (flags & 0x0F), "C01: first byte = type << 4 | flags");
    // decode the remaining length independently
    let mut c = crate::verif_common::Cursor::new(&packet[1..5.min(packet.len())]);
    let rl = c.varint();
    assert!(c.ok && rl as usize == body && c.i == lb, "C01: remaining length is canonical and exact");
    kani::cover!(body == 127);
    kani::cover!(body == 128);
}

static ZEROS: [u8; 65_536] = [0; 65_536];

// @harness props=C09 tier=quick layer=L1
// @harness funcs="Utf8String::serialize, BinaryData::serialize (length > 65535)"
// @harness sym="length 65535 or 65536" bounds="only the length matters; contents are zero bytes"
#[kani::proof]
#[kani::unwind(4)]
fn c09_too_long_field_rejected() {
    let over: bool = kani::any();
    let n = if over { 65_536 } else { 65_535 };
    let s = unsafe { core::str::from_utf8_unchecked(&ZEROS[..n]) };
    let mut buf = [0u8; 16];
    {
        let mut ser = MqttSerializer::new(&mut buf);
        let r = Utf8String(s).serialize(&mut ser);
        if over {
            assert!(matches!(r, Err(Error::Custom)), "C09: a string longer than 65535 bytes cannot be encoded");
            assert!(ser.index == MAX_FIXED_HEADER_SIZE, "C09: nothing of the refused field is emitted (no truncation)");
        } else {
            assert!(matches!(r, Err(Error::InsufficientMemory)), "C09: the longest legal string needs buffer space");
        }
    }
    if over {
        // (the 65535-byte case would iterate byte by byte until the small buffer is full)
        let mut ser = MqttSerializer::new(&mut buf);
        let r = BinaryData(&ZEROS[..n]).serialize(&mut ser);
        assert!(matches!(r, Err(Error::Custom)), "C09: binary data longer than 65535 bytes cannot be encoded");
        assert!(ser.index == MAX_FIXED_HEADER_SIZE);
    }
    let e: crate::Error<()> = crate::Error::from(Error::Custom);
    assert!(matches!(e, crate::Error::InvalidRequest), "C09: an unencodable field surfaces as InvalidRequest");
    let e: crate::Error<()> = crate::Error::from(Error::InsufficientMemory);
    assert!(matches!(e, crate::Error::Resource(crate::ResourceError::BufferTooSmall)), "C09: too little buffer surfaces as BufferTooSmall");
}

