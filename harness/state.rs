//! L1/L2 harnesses on session/state.rs: packet identifiers (C07), keep-alive arithmetic (C10),
//! packet-size gate (C14), reset (C05).
use super::*;
use crate::mqtt_client::outbound::verif_outbound::{any_state, peek_release, peek_retained, set_release_state, set_retained_state};
use crate::ReasonCode;
use core::num::NonZeroU16;
use embassy_time::{Duration, Instant};

// @harness props=C07,C01 tier=quick layer=L1
// @harness funcs="SessionData::next_packet_id"
// @harness sym="packet-id counter: every NonZeroU16" bounds="one allocation from an arbitrary counter (inductive step); exhaustive over the 16-bit counter"
#[kani::proof]
fn c07_next_id_nonzero() {
    let mut tx = [0u8; 8];
    let mut data = SessionData::new(&mut tx);
    let c: u16 = kani::any();
    kani::assume(c != 0);
    data.packet_id = NonZeroU16::new(c).unwrap();
    let id = data.next_packet_id();
    assert!(id != 0, "C07/nonzero: allocated id is 0");
    assert!(data.packet_id.get() != 0, "C07/nonzero: counter became 0");
    let id2 = data.next_packet_id();
    assert!(id2 != 0 && id2 != id, "C07/consecutive ids differ");
    kani::cover!(c == 0xFFFF, "wrap-around reached");
}

/// Inductive step for "identifiers in flight are pairwise distinct": from an ARBITRARY counter
/// value (so: after any number of allocations, wraps included) and arbitrary distinct ids in
/// flight, the next allocated id collides with none of them.
fn fresh_id_body(n_ret: usize, n_rel: usize) {
    let mut tx = [0u8; 16];
    let mut data = SessionData::new(&mut tx);
    let c: u16 = kani::any();
    kani::assume(c != 0);
    data.packet_id = NonZeroU16::new(c).unwrap();
    let ids: [u16; 5] = kani::any();
    // every in-flight entry in an arbitrary send state: an exchange whose PUBREL (or PUBLISH) is
    // already on the wire still owns its identifier until the final acknowledgement
    let mut i = 0;
    while i < n_ret {
        kani::assume(ids[i] != 0);
        data.outbound.retain_packet(ids[i], 2 * i, 2).unwrap();
        set_retained_state(&mut data.outbound, i, any_state(2));
        i += 1;
    }
    let mut j = 0;
    while j < n_rel {
        kani::assume(ids[n_ret + j] != 0);
        data.outbound.queue_release(ids[n_ret + j], ReasonCode::Success).unwrap();
        set_release_state(&mut data.outbound, j, any_state(4));
        j += 1;
    }
    let id = data.next_packet_id();
    assert!(id != 0, "C07/nonzero: allocated id is 0");
    // the oracle reads the lists directly (not through has_retained / has_pending_release)
    let mut i = 0;
    while i < n_ret {
        assert!(peek_retained(&data.outbound, i).map(|e| e.0) == Some(ids[i]) && id != ids[i], "C07/fresh: allocated id equals a retained (unacknowledged) id");
        i += 1;
    }
    let mut j = 0;
    while j < n_rel {
        assert!(peek_release(&data.outbound, j) == Some(ids[n_ret + j]) && id != ids[n_ret + j], "C07/fresh: allocated id equals an id awaiting PUBCOMP (whatever the send state of its PUBREL)");
        j += 1;
    }
    kani::cover!(id != c, "allocation skipped an id in use");
    kani::cover!(id == c, "allocation used the counter value");
}

// @harness props=C07 tier=quick layer=L2
// @harness funcs="SessionData::next_packet_id, Outbound::has_retained, Outbound::has_pending_release"
// @harness sym="counter (NonZeroU16), 3 in-flight ids (u16, non-zero)" bounds="2 retained + 1 awaiting PUBCOMP; inductive step from an arbitrary counter"
#[kani::proof]
#[kani::unwind(6)]
fn c07_fresh_id_not_in_use_2_1() {
    fresh_id_body(2, 1);
}

// @harness props=C07 tier=thorough layer=L2
// @harness funcs="SessionData::next_packet_id, Outbound::has_retained, Outbound::has_pending_release"
// @harness sym="counter (NonZeroU16), 5 in-flight ids" bounds="3 retained + 2 awaiting PUBCOMP; inductive step from an arbitrary counter"
#[kani::proof]
#[kani::unwind(8)]
fn c07_fresh_id_not_in_use_3_2() {
    fresh_id_body(3, 2);
}

// @harness props=C10 tier=quick layer=L1
// @harness funcs="RuntimeState::keepalive_send_interval"
// @harness sym="keep-alive 0..=65535 s" bounds="exhaustive over u16 seconds"
#[kani::proof]
fn c10_send_interval() {
    let k: u16 = kani::any();
    let rt = RuntimeState::new(Duration::from_secs(k as u64));
    let iv = rt.keepalive_send_interval();
    if k == 0 {
        assert!(iv.is_none(), "C10/interval: keep-alive 0 must not ping");
    } else {
        let iv = iv.expect("C10/interval: non-zero keep-alive has an interval");
        let ka_ms = k as u64 * 1000;
        let lead = if ka_ms / 2 < ROUND_TRIP_TIMEOUT_MS { ka_ms / 2 } else { ROUND_TRIP_TIMEOUT_MS };
        assert!(iv.as_millis() > 0, "C10/interval: ping interval is positive");
        assert!(iv.as_millis() + lead == ka_ms, "C10/interval: interval + lead == keep-alive");
        assert!(iv.as_millis() <= ka_ms, "C10/interval: interval within keep-alive");
    }
    kani::cover!(k == 1);
    kani::cover!(k == 65535);
}

fn any_opt_instant() -> Option<Instant> {
    if kani::any() {
        let t: u64 = kani::any();
        Some(Instant::from_ticks(t))
    } else {
        None
    }
}

// @harness props=C10 tier=quick layer=L1
// @harness funcs="RuntimeState::next_deadline, RuntimeState::note_outbound_activity, RuntimeState::reset_transport"
// @harness sym="next_ping, ping_timeout: Option<u64 ticks>, now" bounds="none (loop-free)"
#[kani::proof]
fn c10_next_deadline() {
    let mut rt = RuntimeState::new(Duration::from_secs(kani::any::<u16>() as u64));
    rt.next_ping = any_opt_instant();
    rt.ping_timeout = any_opt_instant();
    let d = rt.next_deadline();
    match (rt.next_ping, rt.ping_timeout) {
        (None, None) => assert!(d.is_none(), "C10/deadline: none"),
        (Some(a), None) => assert!(d == Some(a), "C10/deadline: ping only"),
        (None, Some(b)) => assert!(d == Some(b), "C10/deadline: timeout only"),
        (Some(a), Some(b)) => {
            let d = d.unwrap();
            assert!(d <= a && d <= b && (d == a || d == b), "C10/deadline: the earlier one");
        }
    }
    let now_t: u64 = kani::any();
    kani::assume(now_t < (1 << 61));
    let now = Instant::from_ticks(now_t);
    rt.note_outbound_activity(now);
    match rt.keepalive_send_interval() {
        None => assert!(rt.next_ping.is_none(), "C10/rearm: keep-alive 0 never arms a ping"),
        Some(iv) => assert!(rt.next_ping == Some(now + iv), "C10/rearm: next ping = now + interval"),
    }
    rt.reset_transport();
    assert!(rt.next_ping.is_none() && rt.ping_timeout.is_none() && !rt.session_resumed, "C12/reset_transport clears timers");
}

// @harness props=C14 tier=quick layer=L1
// @harness funcs="RuntimeState::require_packet_size"
// @harness sym="len: usize, maximum_packet_size: Option<u32>" bounds="exhaustive"
#[kani::proof]
fn c14_require_packet_size() {
    let mut rt = RuntimeState::new(Duration::from_secs(60));
    rt.maximum_packet_size = if kani::any() { Some(kani::any()) } else { None };
    let len: usize = kani::any();
    let r = rt.require_packet_size::<()>(len);
    match rt.maximum_packet_size {
        None => assert!(r.is_ok(), "C14/gate: no limit, never refused"),
        Some(max) => {
            if len > max as usize {
                assert!(
                    matches!(r, Err(Error::Resource(ResourceError::PacketTooLarge))),
                    "C14/gate: longer than the maximum is refused with PacketTooLarge"
                );
            } else {
                assert!(r.is_ok(), "C14/gate: up to the maximum is accepted");
            }
        }
    }
    kani::cover!(r.is_err());
    kani::cover!(r.is_ok() && rt.maximum_packet_size.is_some());
}

// @harness props=C05,C04,C18 tier=quick layer=L2
// @harness funcs="SessionData::reset, Outbound::clear, Outbound::next_step"
// @harness sym="generation, counter, ids, inbound QoS2 ids" bounds="2 retained + 1 release + 1 control + 2 inbound ids"
#[kani::proof]
#[kani::unwind(6)]
fn c05_reset_clears_everything() {
    let mut tx: [u8; 16] = kani::any();
    let mut data = SessionData::new(&mut tx);
    data.generation = kani::any();
    let g0 = data.generation;
    let c: u16 = kani::any();
    kani::assume(c != 0);
    data.packet_id = NonZeroU16::new(c).unwrap();
    data.session_present = kani::any();
    let ids: [u16; 6] = kani::any();
    data.outbound.retain_packet(ids[0], 0, 3).unwrap();
    data.outbound.retain_packet(ids[1], 3, 4).unwrap();
    data.outbound.queue_release(ids[2], ReasonCode::Success).unwrap();
    data.outbound
        .queue_control(crate::mqtt_client::outbound::ControlAction::PubAck { packet_id: ids[3], reason: ReasonCode::Success })
        .unwrap();
    data.pending_server_packet_ids.push(ids[4]).unwrap();
    data.pending_server_packet_ids.push(ids[5]).unwrap();
    data.reset();
    assert!(data.outbound.is_quiescent(), "C05/reset: outbound lists empty");
    assert!(data.outbound.pending_control_len() == 0, "C05/reset: owed acks dropped");
    assert!(data.outbound.next_step().is_none(), "C05/reset: nothing is offered for transmission");
    assert!(data.outbound.used() == 0, "C05/reset: arena empty");
    assert!(data.outbound.scratch_len() == 16, "C17/reset: whole arena is scratch again");
    assert!(data.pending_server_packet_ids.is_empty(), "C04/reset: inbound QoS 2 ids forgotten");
    assert!(!data.session_present, "C05/reset: session_present cleared");
    assert!(data.generation == g0.wrapping_add(1), "C18/reset: generation advances by one");
    assert!(data.packet_id.get() == 1, "C05/reset: ids restart at 1");
    assert!(!data.outbound.has_retained(ids[0]) && !data.outbound.has_pending_release(ids[2]), "C05/reset: nothing in flight");
}
