// Counterexample for harness mqtt_client::outbound::verif_outbound::c03_release_order_preserved_1 (property C03), produced by CBMC through
// `cargo kani -Z concrete-playback --concrete-playback=print`.
// Re-run: ./check C03 --replay /verif/replays/C03/c03_release_order_preserved_1.rs
// harness-file: harness/outbound.rs  overlay: c  stubs: none
// (kani produced no concrete test: the failing check has no kani::any input)
