// Counterexample for harness mqtt_client::outbound::verif_outbound::c17_compact_preserves_ack0 (property C17), produced by CBMC through
// `cargo kani -Z concrete-playback --concrete-playback=print`.
// Re-run: ./check C17 --replay /verif/replays/C17/c17_compact_preserves_ack0.rs
// harness-file: harness/outbound.rs  overlay: c  stubs: none
// failed: "C02/K6: the remaining entries keep identity and order"
/// Test generated for harness `mqtt_client::outbound::verif_outbound::c17_compact_preserves_ack0` 
///
/// Check for `assertion`: ""C02/K6: the remaining entries keep identity and order""

#[test]
fn kani_concrete_playback_c17_compact_preserves_ack0_13217410085568084080() {
    let concrete_vals: Vec<Vec<u8>> = vec![
        // 0
        vec![0],
        // 0
        vec![0],
        // 0
        vec![0],
        // 0
        vec![0],
        // 0
        vec![0],
        // 0
        vec![0],
        // 0
        vec![0],
        // 0
        vec![0],
        // 0
        vec![0],
        // 0
        vec![0],
        // 0
        vec![0],
        // 0
        vec![0],
        // 0
        vec![0],
        // 0
        vec![0],
        // 0
        vec![0],
        // 0
        vec![0],
    ];
    kani::concrete_playback_run(concrete_vals, c17_compact_preserves_ack0);
}
