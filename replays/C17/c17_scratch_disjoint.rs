// Counterexample for harness mqtt_client::outbound::verif_outbound::c17_scratch_disjoint (property C17), produced by CBMC through
// `cargo kani -Z concrete-playback --concrete-playback=print`.
// Re-run: ./check C17 --replay /verif/replays/C17/c17_scratch_disjoint.rs
// harness-file: harness/outbound.rs  overlay: c  stubs: none
// failed: "C17/K7: QoS 0 / CONNECT traffic in the scratch area altered a retained packet"
// failed: "C17/K7: QoS 0 / CONNECT traffic in the scratch area altered a retained packet"
/// Test generated for harness `mqtt_client::outbound::verif_outbound::c17_scratch_disjoint` 
///
/// Check for `assertion`: ""C17/K7: QoS 0 / CONNECT traffic in the scratch area altered a retained packet""

#[test]
fn kani_concrete_playback_c17_scratch_disjoint_12680712566707694972() {
    let concrete_vals: Vec<Vec<u8>> = vec![
        // 0
        vec![0],
        // 0
        vec![0],
        // 0
        vec![0],
        // 128
        vec![128],
        // 0
        vec![0],
        // 0
        vec![0],
        // 0
        vec![0],
        // 0
        vec![0],
        // 0
        vec![0],
        // 0
        vec![0],
        // 0
        vec![0],
        // 0
        vec![0],
        // 0
        vec![0],
        // 0
        vec![0],
        // 0
        vec![0],
        // 0
        vec![0],
        // 0
        vec![0],
    ];
    kani::concrete_playback_run(concrete_vals, c17_scratch_disjoint);
}
