// Counterexample for harness mqtt_client::outbound::verif_outbound::c17_capacity_recovered (property C17), produced by CBMC through
// `cargo kani -Z concrete-playback --concrete-playback=print`.
// Re-run: ./check C17 --replay /verif/replays/C17/c17_capacity_recovered.rs
// harness-file: harness/outbound.rs  overlay: c  stubs: none
// (kani produced no concrete test: the failing check has no kani::any input)
