// Counterexample of harness mqtt_client::session::drive::verif_p_drive::c10_gap_bound_ping_outstanding (property ALL): failing checks of the solver run.
// Re-run: ./check ALL --replay /verif/replays/ALL/c10_gap_bound_ping_outstanding.rs
// harness-file: harness/p_drive.rs  overlay: p  stubs: abstract outbound K1-K7 (proj)
// failed: "KF:F10/short-keepalive-gap C10: with keep-alive < 5 s and a PINGREQ outstanding nothing is sent between t + keep-alive and t + 5 s (gap between client packets exceeds the keep-alive)" @ ../../../verif/harness/p_drive.rs:506:9 in function mqtt_client::session::drive::verif_p_drive::c10_gap_bound_ping_outstanding
