// Counterexample for harness mqtt_client::outbound::verif_outbound::c04_control_queue_is_fifo (property ALL), produced by CBMC through
// `cargo kani -Z concrete-playback --concrete-playback=print`.
// Re-run: ./check ALL --replay /verif/replays/ALL/c04_control_queue_is_fifo.rs
// harness-file: harness/outbound.rs  overlay: c  stubs: none
// (kani produced no concrete test: the failing check has no kani::any input)
