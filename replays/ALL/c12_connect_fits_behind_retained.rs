// Counterexample for harness mqtt_client::outbound::verif_outbound::c12_connect_fits_behind_retained (property ALL), produced by CBMC through
// `cargo kani -Z concrete-playback --concrete-playback=print`.
// Re-run: ./check ALL --replay /verif/replays/ALL/c12_connect_fits_behind_retained.rs
// harness-file: harness/outbound.rs  overlay: c  stubs: none
// failed: "KF:F11/connect-needs-arena-tail C12: with the transmit arena (nearly) full of retained packets every connect() fails with BufferTooSmall - the session cannot be reconnected"
/// Test generated for harness `mqtt_client::outbound::verif_outbound::c12_connect_fits_behind_retained` 
///
/// Check for `assertion`: ""KF:F11/connect-needs-arena-tail C12: with the transmit arena (nearly) full of retained packets every connect() fails with BufferTooSmall - the session cannot be reconnected""

#[test]
fn kani_concrete_playback_c12_connect_fits_behind_retained_13325638909716852113() {
    let concrete_vals: Vec<Vec<u8>> = vec![
        // 205
        vec![205],
        // 200
        vec![200],
        // 216
        vec![216],
        // 232
        vec![232],
        // 220
        vec![220],
        // 217
        vec![217],
        // 250
        vec![250],
        // 203
        vec![203],
        // 201
        vec![201],
        // 232
        vec![232],
        // 220
        vec![220],
        // 216
        vec![216],
        // 212
        vec![212],
        // 221
        vec![221],
        // 252
        vec![252],
        // 201
        vec![201],
        // 204
        vec![204],
        // 201
        vec![201],
        // 216
        vec![216],
        // 248
        vec![248],
        // 216
        vec![216],
        // 220
        vec![220],
        // 216
        vec![216],
        // 216
        vec![216],
        // 204
        vec![204],
        // 216
        vec![216],
        // 217
        vec![217],
        // 201
        vec![201],
        // 217
        vec![217],
        // 220
        vec![220],
        // 216
        vec![216],
        // 217
        vec![217],
        // 16ul
        vec![16, 0, 0, 0, 0, 0, 0, 0],
        // 0
        vec![0],
    ];
    kani::concrete_playback_run(concrete_vals, c12_connect_fits_behind_retained);
}
