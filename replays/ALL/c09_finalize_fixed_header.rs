// Counterexample for harness ser::verif_ser::c09_finalize_fixed_header (property ALL), produced by CBMC through
// `cargo kani -Z concrete-playback --concrete-playback=print`.
// Re-run: ./check ALL --replay /verif/replays/ALL/c09_finalize_fixed_header.rs
// harness-file: harness/ser.rs  overlay: c  stubs: none
/// Test generated for harness `ser::verif_ser::c09_finalize_fixed_header` 
///
/// Check for `cover`: "cover condition: body == 127"

#[test]
fn kani_concrete_playback_c09_finalize_fixed_header_16307892878496153098() {
    let concrete_vals: Vec<Vec<u8>> = vec![
        // 127ul
        vec![127, 0, 0, 0, 0, 0, 0, 0],
        // 240
        vec![240],
    ];
    kani::concrete_playback_run(concrete_vals, c09_finalize_fixed_header);
}
