// Counterexample of harness mqtt_client::session::operations::verif_p_operations::c13_disconnect_direct_writer (property ALL): failing checks of the solver run.
// Re-run: ./check ALL --replay /verif/replays/ALL/c13_disconnect_direct_writer.rs
// harness-file: harness/p_operations.rs  overlay: p  stubs: abstract outbound K1-K7 (ops)
// failed: "KF:F9/disconnect-cancel-midpacket C13: a cancel-safe operation writes a multi-byte packet through write_all while the handle stays live (cancellation after a partial write leaves a live handle mid-packet)" @ ../../../verif/harness/p_drive.rs:81:17 in function <mqtt_client::session::drive::verif_p_drive::SymIoP as mqtt_client::Io>::write
