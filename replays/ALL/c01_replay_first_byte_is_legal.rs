// Counterexample for harness mqtt_client::outbound::verif_outbound::c01_replay_first_byte_is_legal (property ALL), produced by CBMC through
// `cargo kani -Z concrete-playback --concrete-playback=print`.
// Re-run: ./check ALL --replay /verif/replays/ALL/c01_replay_first_byte_is_legal.rs
// harness-file: harness/outbound.rs  overlay: c  stubs: none
// failed: "KF:F7/replay-dup-on-subscribe C01: a replayed SUBSCRIBE/UNSUBSCRIBE is sent with reserved flag bit 3 set (0x8A / 0xAA)"
/// Test generated for harness `mqtt_client::outbound::verif_outbound::c01_replay_first_byte_is_legal` 
///
/// Check for `assertion`: ""KF:F7/replay-dup-on-subscribe C01: a replayed SUBSCRIBE/UNSUBSCRIBE is sent with reserved flag bit 3 set (0x8A / 0xAA)""

#[test]
fn kani_concrete_playback_c01_replay_first_byte_is_legal_2040173614868328347() {
    let concrete_vals: Vec<Vec<u8>> = vec![
        // 64
        vec![64],
    ];
    kani::concrete_playback_run(concrete_vals, c01_replay_first_byte_is_legal);
}
