// Counterexample for harness mqtt_client::outbound::verif_outbound::c03_release_order_preserved (property ALL), produced by CBMC through
// `cargo kani -Z concrete-playback --concrete-playback=print`.
// Re-run: ./check ALL --replay /verif/replays/ALL/c03_release_order_preserved.rs
// harness-file: harness/outbound.rs  overlay: c  stubs: none
// failed: "C03/order: replayed PUBRELs keep the order in which the PUBRECs were received"
/// Test generated for harness `mqtt_client::outbound::verif_outbound::c03_release_order_preserved` 
///
/// Check for `assertion`: ""C03/order: replayed PUBRELs keep the order in which the PUBRECs were received""

#[test]
fn kani_concrete_playback_c03_release_order_preserved_3287883051417852682() {
    let concrete_vals: Vec<Vec<u8>> = vec![
    ];
    kani::concrete_playback_run(concrete_vals, c03_release_order_preserved);
}
