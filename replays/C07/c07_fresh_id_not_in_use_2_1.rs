// Counterexample for harness mqtt_client::session::state::verif_state::c07_fresh_id_not_in_use_2_1 (property C07), produced by CBMC through
// `cargo kani -Z concrete-playback --concrete-playback=print`.
// Re-run: ./check C07 --replay /verif/replays/C07/c07_fresh_id_not_in_use_2_1.rs
// harness-file: harness/state.rs  overlay: c  stubs: none
// failed: "C07/fresh: allocated id equals a retained (unacknowledged) id"
// failed: "C07/fresh: allocated id equals an id awaiting PUBCOMP"
/// Test generated for harness `mqtt_client::session::state::verif_state::c07_fresh_id_not_in_use_2_1` 
///
/// Check for `assertion`: ""C07/fresh: allocated id equals a retained (unacknowledged) id""

#[test]
fn kani_concrete_playback_c07_fresh_id_not_in_use_2_1_14803928990506931799() {
    let concrete_vals: Vec<Vec<u8>> = vec![
        // 65535
        vec![255, 255],
        // 32768
        vec![0, 128],
        // 65535
        vec![255, 255],
        // 32768
        vec![0, 128],
        // 0
        vec![0, 0],
        // 0
        vec![0, 0],
    ];
    kani::concrete_playback_run(concrete_vals, c07_fresh_id_not_in_use_2_1);
}
